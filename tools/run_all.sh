#!/bin/bash
# usage: tools/run_all.sh [quick|thorough] [ids...]  -- runs every check on the CURRENT /repo tree and validates the evidence files
TIER=${1:-quick}; shift
cd /verif
if ! git -C /repo diff --quiet; then echo "WARNING: /repo has uncommitted changes"; fi
IDS=${@:-$(python3 -c "import json;print(' '.join(c['property_id'] for c in json.load(open('MANIFEST.json'))['checks']))")}
RC=0
for id in $IDS; do
  ./check $id --tier $TIER > scratch/run_all_$id.log 2>&1; rc=$?
  tail -n 200 scratch/run_all_$id.log | grep -E "^\[$id" | tail -1
  grep -E "^(VIOLATION|INCONCLUSIVE)" scratch/run_all_$id.log | head -3
  [ $rc -ne 0 ] && { echo "  !! $id exit $rc"; RC=1; }
done
python3-vt - <<'PY'
import json, jsonschema, glob
schema = json.load(open('/root/.vp/EVIDENCE.schema.json'))
for f in sorted(glob.glob('/verif/evidence/*.json')):
    try:
        jsonschema.validate(json.load(open(f)), schema)
    except Exception as e:
        print("INVALID EVIDENCE", f, str(e)[:200])
print("evidence files validated")
PY
exit $RC
