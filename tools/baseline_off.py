#!/usr/bin/env python3
"""Runs the repository's own test suite with the verif-hooks guard OFF (default features) and checks
that every test in BASELINE.json's stable_pass list passes. Exit 0 iff all of them pass."""
import json, re, subprocess, sys, os
env = dict(os.environ, CARGO_NET_OFFLINE="true")
cmd = ["cargo", "nextest", "run", "--workspace", "--no-fail-fast", "--offline", "--test-threads", "8",
       "--status-level", "all", "--failure-output", "never", "--success-output", "never"]
p = subprocess.run(cmd, cwd="/repo", env=env, stdout=subprocess.PIPE, stderr=subprocess.STDOUT, text=True)
passed = set()
for line in p.stdout.splitlines():
    m = re.match(r"\s*PASS\s+\[[^\]]*\]\s+(?:\(\s*\d+/\d+\)\s+)?(\S+)\s+(\S+)", line)
    if m:
        passed.add(m.group(1) + "::" + m.group(2))
want = set(json.load(open("/root/.vp/BASELINE.json"))["stable_pass"]) if os.path.exists("/root/.vp/BASELINE.json") else None
if want is None:
    print("BASELINE.json not found; %d tests passed" % len(passed)); sys.exit(0 if passed else 1)
missing = sorted(want - passed)
print("baseline (hooks off): %d/%d stable tests pass" % (len(want) - len(missing), len(want)))
for m in missing[:40]:
    print("  NOT PASSING:", m)
sys.exit(1 if missing else 0)
