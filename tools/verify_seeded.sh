#!/bin/bash
# usage: tools/verify_seeded.sh <ID> [<dir with patch.diff, demo, demo_cmd.txt>]
# Confirms in the scratch worktree /tmp/wt/<ID> that the seeded change (a) applies to a clean tree,
# (b) keeps the 224 stable tests green and compiles in the other configurations, (c) makes the
# demonstration fail, and that the demonstration passes without it.
ID=$1; WT=/tmp/wt/$ID; SRC=${2:-/tmp/seeded_out/$ID}
set -u
cd $WT || exit 2
export CARGO_NET_OFFLINE=true
git checkout -q -- . ; git clean -fdq -e OUT -e target -- src tests examples benches 2>/dev/null
echo "== clean tree: $(git status --short | grep -v OUT | wc -l) modified files"
DEMO=$(ls $SRC/*.rs 2>/dev/null | head -1)
[ -z "$DEMO" ] && { echo "no demo file"; exit 2; }
DEMOBASE=$(basename $DEMO)
CMD=$(grep -v '^#' $SRC/demo_cmd.txt | grep cargo | head -1 | sed 's/^.*&& *//; s/^ *cd [^;&]*[;&]* *//')
if echo "$CMD" | grep -q -- "--example"; then mkdir -p examples; cp $SRC/*.rs examples/; else cp $SRC/*.rs tests/; fi
echo "== demo cmd: $CMD"
echo "== demo WITHOUT change:"; (eval "$CMD" 2>&1 | grep -E "^test result|panicked|^error" | head -4)
git apply $SRC/patch.diff || { echo "PATCH DOES NOT APPLY"; exit 1; }
echo "== demo WITH change:"; (eval "$CMD" 2>&1 | grep -E "^test result|panicked|^error" | head -4)
rm -f tests/$DEMOBASE examples/$DEMOBASE
echo "== suite WITH change:"; cargo nextest run --offline --no-fail-fast 2>&1 | grep -E "Summary|FAIL " | sed 's/\[.*\] *([0-9/ ]*)//' | sort | uniq | head -12
cargo check --offline --no-default-features --features embedded-domain-resolver,full-regex-handling 2>&1 | grep -E "^error" | head -3
cargo check --offline --features content-blocking,regex-debug-info 2>&1 | grep -E "^error" | head -3
git checkout -q -- . ; git clean -fdq -e OUT -e target -- src tests examples 2>/dev/null
echo "== done"
