#!/usr/bin/env python3
"""usage: save_seeded.py <name> <property> <src dir> '<json meta fields>'
Copies patch.diff, the demonstration and notes into /verif/seeded/<name>/ and writes meta.json."""
import json, os, shutil, sys
name, prop, src, extra = sys.argv[1], sys.argv[2], sys.argv[3], json.loads(sys.argv[4])
dst = os.path.join("/verif/seeded", name)
os.makedirs(dst, exist_ok=True)
for f in os.listdir(src):
    if f.endswith((".diff", ".rs", ".txt", ".md")) and "nextest" not in f:
        shutil.copy(os.path.join(src, f), os.path.join(dst, f))
meta = {"property": prop, "origin": "independent sub-agent given only the property text and a scratch worktree",
        "confirmed_in_scratch_worktree": "patch applies to a clean tree; `cargo nextest run --offline --no-fail-fast`: 224 passed, 6 (known network) failed; "
                                         "compiles with --no-default-features --features embedded-domain-resolver,full-regex-handling and with --features content-blocking,regex-debug-info; "
                                         "demonstration passes without the change and fails with it (tools/verify_seeded.sh)"}
meta.update(extra)
json.dump(meta, open(os.path.join(dst, "meta.json"), "w"), indent=1)
print("saved", dst, sorted(os.listdir(dst)))
