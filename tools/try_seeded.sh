#!/bin/bash
# usage: tools/try_seeded.sh <patch.diff> <check id>...   -> runs the quick checks against the patched /repo (restored afterwards)
P=$1; shift
cat > /tmp/try_seeded_inner.sh <<EOS
cd /verif
for c in $@; do ./check \$c 2>&1 | grep -E "^\[C|  signature|INCONCL" | sort | uniq | head -6; done
EOS
/verif/tools/with_patch.sh "$P" -- bash /tmp/try_seeded_inner.sh
