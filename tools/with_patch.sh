#!/bin/bash
# usage: tools/with_patch.sh [-R] <patch-file|git-commit> -- <command...>
# Applies a patch (or, with a commit id, that commit's diff; -R = reversed) to /repo's working tree,
# runs the command, and ALWAYS restores the tree afterwards. Never commits anything in /repo.
set -u
REV=""
if [ "$1" = "-R" ]; then REV="-R"; shift; fi
SRC="$1"; shift
[ "$1" = "--" ] && shift
if ! git -C /repo diff --quiet; then echo "refusing: /repo has uncommitted changes" >&2; exit 3; fi
if [ -f "$SRC" ]; then
  git -C /repo apply $REV "$SRC" || { echo "patch does not apply" >&2; exit 3; }
else
  git -C /repo show "$SRC" | git -C /repo apply $REV || { echo "commit diff does not apply" >&2; exit 3; }
fi
"$@"
RC=$?
git -C /repo checkout -- . 
git -C /repo clean -fdq -- src tests 2>/dev/null
exit $RC
