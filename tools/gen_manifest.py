#!/usr/bin/env python3
"""Regenerates /verif/MANIFEST.json from tools/props.py (single source of truth) and validates it."""
import json, os, subprocess, sys
here = os.path.dirname(os.path.abspath(__file__))
sys.path.insert(0, here)
from props import PROPS, MANIFEST_TEXT, NOT_APPLICABLE
VERIF = os.path.dirname(here)
hooks_commits = subprocess.check_output(["git", "-C", "/repo", "log", "--format=%h", "--grep=^verif-hooks:"]).decode().split()
all_ids = [json.loads(l)["id"] for l in open(os.path.join(VERIF, "properties.jsonl"))]
checks = []
for pid in all_ids:
    if pid not in PROPS:
        continue
    t = MANIFEST_TEXT[pid]
    checks.append({
        "property_id": pid,
        "quick_cmd": "./check %s --tier quick" % pid,
        "thorough_cmd": "./check %s --tier thorough" % pid,
        "evidence_file": "/verif/evidence/%s.json" % pid,
        "replay_cmd_template": "./check %s --replay {path}" % pid,
        "engine": "abverif",
        "level_claimed": {"category": PROPS[pid]["level"], "text": t["text"], "design_ref": t["design_ref"]},
        "level_note": t["note"],
        "technique": t["technique"],
    })
na = [{"property_id": p, "reason": NOT_APPLICABLE[p]} for p in all_ids if p not in PROPS]
m = {
    "version": 1,
    "setup_cmd": "./setup.sh",
    "hooks": {
        "guard": "cargo feature `verif-hooks` of the adblock crate (off by default)",
        "enable": "the harness crate path-depends on /repo with features [..., \"verif-hooks\"] (harness/Cargo.toml); checks run `cargo build --release` in /verif/harness",
        "baseline_off_cmd": "python3 /verif/tools/baseline_off.py",
        "source_commits": list(reversed(hooks_commits)),
        "add_only": True,
    },
    "engines": [{
        "name": "abverif",
        "path": "/verif/harness",
        "serves_properties": [c["property_id"] for c in checks],
        "kind_free_text": "Rust harness driving the real engine (built from /repo's current tree with hooks on) under seeded hostile workloads; "
                          "oracles: independent reference models, metamorphic/differential twins, invariants at hooks; sanitizer stages (TSan, ASan, Miri) "
                          "where memory/concurrency guarantees are at stake; python driver /verif/check shards, watches, merges and judges.",
    }],
    "checks": checks,
    "not_applicable": na,
    "notes": "Exit 0 = held on everything explored (KNOWN-FINDING lines for recorded defects), 1 = VIOLATION lines, 2 = inconclusive (never a violation line). "
             "VERIF_SEED and VERIF_TIER are honoured. Replays are written under /verif/replays/<id>/.",
}
json.dump(m, open(os.path.join(VERIF, "MANIFEST.json"), "w"), indent=1)
try:
    import jsonschema
    jsonschema.validate(m, json.load(open("/root/.vp/MANIFEST.schema.json")))
    print("MANIFEST.json valid; %d checks, %d not_applicable" % (len(checks), len(na)))
except ImportError:
    print("jsonschema not available; wrote MANIFEST.json (%d checks)" % len(checks))
