"""Per-property configuration of the driver: build configurations, stages, budgets, coverage floors.

Everything here is bookkeeping; the deciding oracles live in harness/src/mon/*.rs.
"""

NIGHTLY = ["+nightly"]
TARGET = "x86_64-unknown-linux-gnu"

CONFIGS = {
    # strict release profile: overflow checks and debug assertions on (see harness/Cargo.toml)
    "native": {
        "cargo_args": ["--release", "--offline"],
        "target_dir": "target-native",
        "bin_subdir": "release",
    },
    "native-sync": {
        "cargo_args": ["--release", "--offline", "--no-default-features"],
        "target_dir": "target-native-sync",
        "bin_subdir": "release",
    },
    "native-css": {
        "cargo_args": ["--release", "--offline", "--features", "css"],
        "target_dir": "target-native-css",
        "bin_subdir": "release",
    },
    "asan": {
        "toolchain": NIGHTLY,
        "cargo_args": ["--release", "--offline", "--target", TARGET],
        "target_dir": "target-asan",
        "bin_subdir": TARGET + "/release",
        "env": {"RUSTFLAGS": "-Zsanitizer=address -Cforce-frame-pointers=yes"},
    },
    "miri": {
        "runner": "miri",
        "cargo_args": [],
        "target_dir": "target-miri",
        "env": {"MIRIFLAGS": "-Zmiri-disable-isolation -Zmiri-address-reuse-rate=1.0 -Zmiri-address-reuse-cross-thread-rate=1.0"},
    },
    "miri-sync": {
        "runner": "miri",
        "cargo_args": ["--no-default-features"],
        "target_dir": "target-miri-sync",
        "env": {"MIRIFLAGS": "-Zmiri-disable-isolation -Zmiri-many-seeds=0..4"},
    },
    "tsan-sync": {
        "toolchain": NIGHTLY,
        "cargo_args": ["--release", "--offline", "--no-default-features", "-Zbuild-std", "--target", TARGET],
        "target_dir": "target-tsan-sync",
        "bin_subdir": TARGET + "/release",
        "env": {"RUSTFLAGS": "-Zsanitizer=thread"},
    },
}

STRICT = "harness built --release with overflow-checks and debug-assertions on, adblock features: default + regex-debug-info + content-blocking + verif-hooks"


def stage(config="native", budget_s=60, watchdog_s=None, shards=None, args=None, name=None, **kw):
    s = {"config": config, "budget_s": budget_s, "watchdog_s": watchdog_s or (budget_s * 3 + 120)}
    if shards:
        s["shards"] = shards
    if args:
        s["args"] = args
    if name:
        s["name"] = name
    s.update(kw)
    return s


def simple(rule, assumptions, floors, quick_budget=45, thorough_budget=600, level="exploration", extra_quick=None, extra_thorough=None):
    return {
        "level": level,
        "rule": rule,
        "assumptions": [STRICT] + assumptions,
        "floor": {"quick": {"evaluations": floors[0], "nontrivial": floors[1]},
                  "thorough": {"evaluations": floors[2], "nontrivial": floors[3]}},
        "tiers": {
            "quick": {"stages": [stage(budget_s=quick_budget)] + (extra_quick or [])},
            "thorough": {"stages": [stage(budget_s=thorough_budget)] + (extra_thorough or [])},
        },
    }


PROPS = {
    "C01": simple(
        rule="case = (rule list L from a collision vocabulary incl. every index-relevant shape, tag set T, optimise flag, request "
             "derived from L's rules with glue characters or noise); evaluation = engine verdict (matched, important, exception, "
             "redirect, rewritten_url, CSP set) compared with O-scan (each parsed rule matched alone + documented precedence); "
             "non-trivial = O-scan found >= 1 matching rule in any category; distinct = hash of (L, T, url, source, type). "
             "Also hosts-format lists, H4 index invariants after construction, and (thorough) the /repo/data corpus engine "
             "vs linear scan over the recorded requests. Every list without $badfilter is also added rule by rule to a live Blocker (add_filter) that is judged by the same reference, and every request is also put through check_network_request_subset under the other three flag combinations (O-scan models the documented flag semantics).",
        assumptions=["per-rule matching (NetworkFilter::matches) is trusted here and judged separately by C02/C03",
                     "badfilter cancellation in the oracle uses the crate's own id functions (judged by C04)",
                     "no 64-bit seahash collision among the strings of one case"],
        floors=(200_000, 50_000, 2_000_000, 400_000),
    ),
    "C02": simple(
        rule="case = (pattern line, URL); exhaustive part: every body over a 6-symbol alphabet {a b / . * ^} up to a length bound "
             "(quick 5, thorough 7; plus an 8-symbol alphabet to length 6) x anchors {none,|p,p|,|p|,||h p,||h p|} x rule hosts x a "
             "184-URL universe (3 schemes x 8 hosts x paths; two hosts extend the last label of a rule host that occurs in them only once), engine per-rule matcher vs the O-pattern reference matcher; random part: "
             "longer vocabulary patterns with rule-derived URLs; scheme patterns; /re/ rules vs the regex crate; weakening relations on "
             "all spellings (oracle-free); company: a pattern with 1-3 textual relatives (extended/shortened/edited, same anchors) in an "
             "optimised engine vs the OR of the per-rule references (reported only when every single rule agrees with its reference). "
             "non-trivial = reference says 'match' (or, for relations, the stronger rule matches some URL); "
             "distinct = hash of (line, url) (a bounded sample of the exhaustive part's matches is hashed; all are counted in observations).",
        assumptions=["rule options are default (all network types, both parties); options are judged by C03",
                     "where ABP and uBO differ on ||host ending mid-label the uBO/implementation-documented reading is the reference"],
        floors=(3_000_000, 100_000, 100_000_000, 400_000),
    ),
    "C03": simple(
        rule="case = (rule line with an option set, request description); exhaustive part: every option set with <= 2 type atoms out of 22 "
             "(11 types, positive/negated) x document x party {-,3p,~3p,1p,~1p} x important x rule kind {plain, ||host^ implicit-all, "
             "@@ exception, |ws://, |http://, |https://} x 22 request type strings x 7 initiators (same host, subdomain, deep subdomain, "
             "unrelated, multi-label suffix, absent, unparseable) x 6 schemes (http, https, ws, wss, ftp, data); random part: domain= lists "
             "with 1-6 included/excluded entries (parents, children, duplicates) combined with random types/party. The pattern always matches "
             "the URL, so options decide. evaluation = per-rule matcher and single-rule engine vs the O-options interpreter; non-trivial = "
             "reference says the rule applies; distinct = hash of (line, url, source, type) (bounded sample per rule; all counted in observations). "
             "neighbours: engines (optimised 3 in 4) of 2-3 plain or /regex/ rules sharing their index token with different type/party/"
             "important/match-case options; the verdict for each rule's URL (both letter cases) must be the OR of the per-rule references. "
             "Further rule kinds cover `$removeparam` (implied types document/subdocument/xhr, observed through the rewrite), `$csp` "
             "(documents only, observed through the csp query) and `$redirect` (observed through matched + redirect); 9 initiators incl. one "
             "whose host is a mere textual suffix of the request host and one five labels below its site; siblings: 2-3 rules with the same pattern whose "
             "domain= lists differ (optimised engine vs OR of the references); requests with opaque or scheme-less URLs straight into Request::preparsed; every single-rule engine is asked again after a serialization round trip.",
        assumptions=["an absent/unparseable initiator cannot satisfy an inclusion list and vacuously satisfies an exclusion-only list (ABP)",
                     "exceptions apply to document requests without $document (uBO-style, as documented in the code)",
                     "`|ws://` covers both websocket schemes here; the ws-vs-wss distinction is judged (and recorded) under C02"],
        floors=(2_000_000, 20_000, 4_000_000, 40_000),
    ),
    "C05": simple(
        rule="case = (clustered rule list L whose rules share buckets and fusion groups, 3 tag sets, 8 rule-derived requests); evaluation = "
             "verdict tuple of Engine(L, optimize=true) vs Engine(L, optimize=false) vs an unoptimised Blocker, then the same Blocker after "
             "optimize() (twice) vs its own earlier answers, then 1-3 near-twin rules added through add_filter to the optimised Blocker and to a "
             "never-optimised twin (a rule the twin accepts as new must not be refused; answers must agree); equality ignores only the debug text; non-trivial = the optimised twin contains >= 1 fused "
             "rule (seen through the H4 walker) and O-scan reports >= 1 matching rule; distinct = hash of (L, T, url, source, type). "
             "Thorough adds the corpus engine twins over the recorded requests.",
        assumptions=["both twins are built by the same build of the crate from the same lines"],
        floors=(300_000, 20_000, 5_000_000, 300_000),
    ),
    "C04": simple(
        rule="three monitors. spec: lists whose rules all aim at one target URL in mixed categories (blocking / @@ / $important / tagged, with "
             "options, badfilter twins, noise), engine (matched, important, exception) vs O-scan; non-trivial = >= 2 of {exception, important, "
             "blocking} categories hit. mono (oracle-free): engines for L and L+x, x inserted at a random position and drawn from the same "
             "vocabulary (or an existing rule with its @@ toggled); x exception => blocked(L+x) implies blocked(L); x blocking => blocked(L) "
             "implies blocked(L+x); non-trivial = the verdicts differ or x matches the request. bad: (y, re-spelt twin$badfilter) must cancel "
             "(option order, aliases 3p/third-party/~1p, xhr/css/frame/beacon, from=/domain=, domain order), (y, twin differing in exactly one "
             "semantic aspect$badfilter) must not, a lone badfilter blocks nothing; non-trivial = y (with noise) blocks its sample URL.",
        assumptions=["'same matching options' is decided by an independent canonical rule description in the harness, not by the crate's id hash",
                     "tag, case-only and www.-only differences between a rule and its badfilter twin are outside the stated domain"],
        floors=(500_000, 100_000, 6_000_000, 400_000),
    ),
    "C07": simple(
        rule="case = (list whose rules aim at one target URL with tag options on blocking, exception, important and csp rules incl. empty and "
             "case-variant tag names, optimise on/off, debug on/off; a history of 1-25 operations from {use_tags, enable_tags, disable_tags, "
             "deserialize(buffer serialized by another engine under a different tag set)} with repeated / duplicate / never-used tags); after "
             "every operation tag_exists(t) is compared with the set model for 8 tags and a 3-request verdict battery is compared with O-scan "
             "using active(rule) <=> tag in model set. non-trivial = some tagged rule matched a battery request both while active and while "
             "inactive during the history; distinct = hash of (list, history). incr: the same model on a live Blocker receiving the tagged rules "
             "one add_filter at a time between tag operations, battery vs O-scan over the rules added so far.",
        assumptions=["tag combined with redirect / removeparam / generichide is outside the stated categories and is not generated"],
        floors=(3_000_000, 30_000, 30_000_000, 300_000),
    ),
    "C06": simple(
        rule="case = (regex-heavy clustered rule list incl. tagged twins with different regexes and a few cosmetic rules, a history of 10-60 "
             "operations). Engine level: {check, csp (inside check battery), url_cosmetic_resources + hidden_class_id_selectors, use/enable/"
             "disable tags, free-then-reallocate tag pattern, set discard policy (1ns/1ns, huge, disabled), discard a random compiled regex, "
             "serialize + deserialize into the same engine, serialize + deserialize into a fresh engine}; Blocker level adds {add_filter of the "
             "remaining rules one at a time, optimize()}. After EVERY query the answer is compared with a fresh engine/blocker built in one "
             "batch from the model (rules in order, enabled tags, resources). H3 hook invariant: no StaleRegex event (cache hit whose regex "
             "source differs from what the requesting rule compiles to). non-trivial = history has >= 1 state change followed by >= 1 query and "
             ">= 2 regex compile/hit events; distinct = hash of (rules, history).",
        assumptions=["runs on glibc malloc (address reuse is what must be provoked; ASan's quarantine would hide it)",
                     "$removeparam rules and non-default scriptlet permissions are not combined with deserialize here (homed in C08)",
                     "badfilter rules are not added through add_filter (documented as unsupported)"],
        floors=(300_000, 20_000, 6_000_000, 300_000),
        extra_thorough=[stage(config="miri", budget_s=1500, watchdog_s=3000, shards=3, args=["--set", "miri=1"], name="miri", count_coverage=False)],
    ),
    "C08": simple(
        rule="case = (list mixing every network rule shape incl. all modifiers, tags, domain lists, regex kinds, fusable clusters, and cosmetic "
             "rules: hostnames, entities, negations, #@#, actions, +js with args and permission-needing scriptlets, generic simple/complex/"
             "misc; debug on/off, optimise on/off, list permission bits in {0,1,3,255}; target engine created with either optimise flag). "
             "evaluation = battery on E vs E' = deserialize(serialize(E)): network verdict tuple + CSP for 6 rule-derived requests under 3 tag "
             "sets, per-site cosmetic resources + class/id lookup for 5 pages (script compared as a multiset of lines), and the H4 field-level "
             "multiset of stored rules under each tag set. non-trivial = the battery produced >= 1 non-default answer on E; distinct = hash of "
             "(list, flags). Thorough adds the corpus engine round trip over the recorded requests.",
        assumptions=["resources are re-supplied to the loaded engine (they are not part of the format by design)",
                     "known defects are attributed only when E' equals a defect-aware twin; see known_findings.json"],
        floors=(200_000, 8_000, 6_000_000, 250_000),
    ),
    "C09": simple(
        rule="case = (list of 200-800 mixed network + cosmetic rules incl. fusable clusters, many generic class/id rules and per-host cosmetic "
             "rules so that every hash container holds many entries; debug, optimise and permission flags). events = serialized byte strings: "
             "(a) two independent builds in one process; (b) 3 (thorough 6) child processes rebuilding the same case and printing length + "
             "128-bit digest; (c) serialize(deserialize(b)) == b into engines created with either optimise flag, again after a use_tags round "
             "trip, and with a non-empty tag set on both sides; repeated serialize. non-trivial = largest rule list has >= 8 buckets (measured "
             "through the H4 walker); distinct = buffer digest. Thorough adds the 86k-line corpus lists (MB-sized buffers) x 4 flag "
             "combinations x 6 children.",
        assumptions=["byte equality is between artefacts of the same build of the crate"],
        floors=(20_000, 1_500, 250_000, 20_000),
    ),
    "C10": simple(
        level="fault_enumeration",
        rule="fault = one hostile byte string applied to an engine with known prior state (rules, tag, resources). For each of 6 (thorough 40) "
             "small valid buffers (0.5-1 KB; every rule shape; tagged / optimised / debug variants): ALL prefixes, ALL single-bit flips, 18 "
             "marker substitutions (nil, empty/oversized fixarray/fixmap, array16/32, map16/32, str8/16/32, bin32, ext, 0xff, ...) and +-1 at "
             "every structural offset found by an independent msgpack walker, random multi-byte splices/duplications/deletions/truncations, plus "
             "arbitrary strings: empty, magic only, magic + each of 256 version bytes, gzip header, declared-length bombs, random bytes with a "
             "valid header. Per fault: deserialize under catch_unwind with the allocation monitor armed (peak growth and any single request "
             "<= 16 MiB + 256 x len, larger requests fail); Err => serialized bytes and query battery equal the pre-call values; Ok => network/"
             "cosmetic/class-id battery, tag switches and serialize_raw run without panicking. non-trivial = buffer differs from the valid one "
             "and passes the header check (decoder entered); distinct = hash of the byte string.",
        assumptions=["totality is judged with debug assertions and overflow checks on",
                     "process aborts (allocation failure, stack overflow) are detected by the driver from the shard journal and replayed twice"],
        floors=(60_000, 50_000, 500_000, 400_000),
        extra_thorough=[stage(config="asan", budget_s=420, args=["--set", "sample=9"], name="asan", count_coverage=False, run_env={"ASAN_OPTIONS": "detect_leaks=0:halt_on_error=1:abort_on_error=1:allocator_may_return_null=1"})],
    ),
    "C13": simple(
        rule="case = (1-8 redirect / redirect-rule / @@...$redirect rules aimed at one URL family with priorities incl. negative, zero, equal, "
             "i32 extremes, malformed ':x' and ':' suffixes, exceptions re-using an existing modifier text or naming another resource, plus "
             "plain blocking / exception / important noise; a random resource store: names, aliases, all 11 MIME kinds + template + unknown, "
             "permissioned and missing resources, aliases colliding with other names/aliases and late duplicate names (a resource whose name or any "
             "alias is taken is rejected whole, per add_resource's contract; the reference is given the effective store); 3 requests). evaluation = engine (redirect, matched, important, exception), a live Blocker built from the same rules by add_filter, "
             "and check_network_request_subset under the other three flag combinations (redirect must not depend on them) vs the reference "
             "(arg-max priority among non-cancelled matching candidates, set-valued on ties; data URL iff resource resolves, is redirectable "
             "and needs no permission; redirect= blocks, redirect-rule does not). non-trivial = >= 2 matching candidates or >= 1 candidate and "
             ">= 1 matching exception; distinct = hash of (rules, store, request).",
        assumptions=["@@...$redirect=x rules are also ordinary exceptions (implementation's category order); whether @@$redirect=x cancels $redirect=x:10 is not settled by the statement and not generated"],
        floors=(200_000, 100_000, 4_000_000, 400_000),
    ),
    "C14": simple(
        rule="case = (1-5 removeparam rules with patterns, type/party/domain options, plus optional blocking/important/exception noise; URLs with "
             "hostile query strings: empty keys/values, repeated keys, '=' in values, '&&', leading/trailing '&', bare '?', '?' inside the "
             "fragment, several '#', non-ASCII, percent escapes, keys that are prefixes/case variants of rule parameters; all request types). "
             "evaluation = engine rewritten_url vs the independent rewriter applied with the parameters of the matching rules, plus the "
             "oracle-free monitors: output is a deletion of whole query pieces, differs from the input, never reported together with an "
             "important block; the same requests on a live Blocker before and after an explicit optimize(), on a Blocker that received the rules one "
             "add_filter at a time, and through check_network_request_subset under the other flag combinations must give the engine's rewrite; "
             "$badfilter is read at text level (a line `R,badfilter` cancels the lines that spell R up to option order; cases where a rule equals a badfilter line up to type options only are not judged) "
             "and every removed parameter must be named by a surviving rule whose type options, read from its text, admit the request type. "
             "non-trivial = >= 1 matching removeparam rule and a non-empty query; distinct = hash of (rules, request).",
        assumptions=["matching of the removeparam rules themselves is the per-rule matcher's (C02/C03)"],
        floors=(300_000, 100_000, 6_000_000, 400_000),
    ),
    "C15": simple(
        rule="case = (1-9 csp rules / exceptions with directives, blanket exceptions, duplicates, domain=, tag=, party options over several "
             "pattern shapes incl. empty pattern; a permuted copy of the list built with the opposite optimise flag whose tag set is reached by "
             "enabling a superset and disabling the surplus; 4 requests of all types, "
             "with/without source). evaluation = set(split(csp)) of both engines vs the reference set; permuted engine must agree; non-document "
             "types must give no policy. non-trivial = >= 2 matching csp rules or >= 1 matching csp exception; distinct = hash of (rules, tags, request).",
        assumptions=["directives are compared as a set split on ','; generated directives contain no comma"],
        floors=(200_000, 50_000, 5_000_000, 400_000),
    ),
    "C16": simple(
        rule="case = (1-14 cosmetic rules: 0-2 positive and 0-2 negated locations drawn from hostnames, subdomains, entities (x.*), bare public "
             "suffixes, IDN hosts; ##, #@#, :style/:remove/:remove-attr/:remove-class actions, +js with arguments (function-style, template, "
             "permissioned, missing resources), blanket #@#+js(); plus 0-2 @@...$generichide network rules and an unrelated blocking rule; "
             "queried for 11 page hosts incl. multi-label public suffixes, deep subdomains and a punycode host). evaluation = "
             "url_cosmetic_resources(page) vs the string-level model: hide_selectors, exceptions, procedural_actions (as canonical JSON), "
             "injected-script invocation blocks and scriptlet definitions, generichide flag and absence of generic selectors under generichide. "
             "non-trivial = >= 1 rule scoped to the page and >= 1 rule scoped elsewhere; distinct = hash of (list, page).",
        assumptions=["the registrable domain of each page host is written down by hand in the harness (PAGES table)",
                     "without the css-validation feature procedural operators are opaque selector text"],
        floors=(500_000, 200_000, 8_000_000, 400_000),
        extra_thorough=[stage(config="native-css", budget_s=300, args=["--set", "scale=0.3"], name="css", count_coverage=False)],
    ),
    "C17": simple(
        rule="case = (1-14 generic hide selectors: class/id selectors with plain, non-ASCII, escaped (backslash-char, hex escapes with terminating "
             "space) identifiers, followed by nothing / compound / descendant / pseudo tails, plus selectors with no leading class or id; some "
             "spelt as ~host## (hidden generic); plus site-specific rules that must not leak). evaluation = (partition) every generic selector "
             "reachable through exactly one of {hidden_class_id_selectors with its own unescaped key, per-site resources of an unrelated host}; "
             "(exactness) for 3 random class/id/exception subsets the result lies between 'must' and 'may' sets of the model; nothing "
             "non-generic is ever returned. Selectors whose key contains characters outside letters/digits/_/- are only bound by the partition. "
             "non-trivial = list has >= 1 keyed and >= 1 unkeyed selector; distinct = hash of the list.",
        assumptions=["CSS unescaping in the model follows CSS Syntax Level 3 for the generated canonical escape forms"],
        floors=(1_000_000, 50_000, 20_000_000, 300_000),
    ),
    "C18": simple(
        rule="four monitors. perm (exhaustive): one filter set with 256 sub-lists (one per list permission q) each requesting 256 scriptlets (one "
             "per resource permission p) on its own host; injected <=> p & !q == 0 for all 65 536 pairs; $redirect to each of the 256 resources "
             "serves a data URL only for p == 0. graph: random resource graphs (3-8 nodes, name/alias references, cycles, missing nodes, "
             "permissioned nodes at any depth, fn/javascript nodes) with 2-3 lists of different permissions requesting scriptlets for the SAME "
             "page, queried 8 times each (hash-map iteration order varies per call); safety: an invocation appears only if every reachable "
             "node's bits are within the union of the masks of the lists that requested that very injection; a permissioned body appears only if "
             "some requester reaching it holds its bits; completeness: a fully permitted, fully resolvable injection appears; no definition twice. "
             "args: 0-4 intended arguments built from hostile atoms (quotes, backslashes, C0 controls, DEL, U+2028/9, BOM, $-sequences, "
             "</script>, comment markers, non-ASCII, astral), spelt unambiguously (plain, escaped commas, three quote styles, three separator "
             "spacings); the invocation must lex as name( strict-JSON-strings ) and decode to exactly the intended list. unhide: identical-text "
             "and blanket scriptlet exceptions. non-trivial: perm p != 0 and permitted; graph has a permissioned node reachable from >= 2 "
             "requested scriptlets; argument list needs escaping; an exception is present.",
        assumptions=["identical injections requested by several lists are judged against the union of those lists' masks (the merge is the documented mechanism)",
                     "a lone {...} argument yields no injection by documented design and is not generated",
                     "escaped-quote spellings inside quoted arguments are not generated (their intended value is not settled by the statement)"],
        floors=(400_000, 40_000, 8_000_000, 400_000),
    ),
    "C20": simple(
        rule="case = debug-mode rule set of 1-8 rules: network rules with every anchor / option / modifier, regex metacharacters, '$', '|', ',' and "
             "non-ASCII inside patterns, from= alias, IDN / punycode / invalid-IDNA / upper-case domains, negated and mixed domain lists, "
             "scheme-only rules with negated types, full-regex rules; cosmetic rules with hostnames, entities, negations, unhide, actions, +js, "
             "non-ASCII and quoted selectors. evaluation = into_content_blocking() under catch_unwind + output monitors (ASCII-only, url-filter "
             "inside the Safari regex subset per an independent validator and compilable, never if-domain with unless-domain, no blocking entry "
             "after an ignore-previous-rules entry, filters_used == sequence of lines that produce output when converted alone, and for plain "
             "patterns every battery URL the single-rule engine blocks is matched by the emitted url-filter). non-trivial = >= 1 rule converted "
             "and >= 1 rejected; distinct = hash of the rule set.",
        assumptions=["the Safari regex subset is the harness's reading of Apple's content-blocker documentation (., [a-b], ?+*, groups, ^ at start, $ at end, no | {} or class escapes)"],
        floors=(50_000, 20_000, 1_500_000, 300_000),
    ),
    "C12": simple(
        rule="two generators. plain: scheme (12 incl. unsupported and upper-case) x optional userinfo x host from a hand-written table of 19 hosts "
             "with known normalised form and registrable domain (multi-label and private public suffixes, unknown TLDs, IDN, IPv4, IPv6, "
             "localhost; optional trailing dot) x port x path/query/fragment incl. non-ASCII, control characters, backslashes; source from the "
             "same table, absent or unparseable; all checks of (b) and (c) apply. mutated: 1-3 random insertions of hostile characters "
             "(multi-byte, case-mapping, separators, controls, percent escapes) / deletions / duplications at random char boundaries of such URLs; "
             "totality plus the consistency checks (hostname is the host component of the normalised URL and ASCII, scheme classification, "
             "websocket forcing, unsupported => default verdict, preparsed equivalence). non-trivial = URL parses and the source URL parses "
             "(plain) / URL parses (mutated); distinct = hash of (url, source, type).",
        assumptions=["third-party ground truth comes from the hand-written table (lower-case hosts; the quantifier does not range over case)",
                     "for malformed authorities (stray brackets, tabs, backslashes) only totality and field consistency are judged"],
        floors=(1_500_000, 300_000, 20_000_000, 400_000),
        extra_thorough=[stage(config="asan", budget_s=300, args=["--set", "scale=0.05"], name="asan", count_coverage=False, run_env={"ASAN_OPTIONS": "detect_leaks=0:halt_on_error=1:abort_on_error=1:allocator_may_return_null=1"})],
    ),
    "C11": simple(
        rule="total: seed rules = 24 synthetic rules of every syntax family + a stride sample of the shipped EasyList / uBO / hosts lists (quick 8k, "
             "thorough 150k lines); for each seed: one multi-byte / case-mapping character inserted at EVERY char boundary, truncation at EVERY "
             "boundary, deletion and duplication of every special character, random special insertions; each mutant goes through parse_filter "
             "(2 formats x 3 rule-type options x debug on/off, random permission mask), parse_hosts_style, read_list_metadata, "
             "FilterSet::add_filter_list / add_filter under catch_unwind; plus lossy-UTF-8 random byte strings; metadata blocks with each "
             "multi-byte character placed at every offset 1000..1030 (straddling byte 1024) and Expires edge cases. indep: lists with "
             "injected junk (incl. comment/header look-alikes such as `[zoneid]=`) and mutated rules, Engine(L) vs Engine(L minus lines that "
             "parse_filter rejects) vs an engine fed every line separately through add_filter: serialized bytes and battery. "
             "hosts: hosts-file entries (ip + host, bare host, case, www., IDN, comments) vs `||normalised-host^`: bytes and battery. types: "
             "NetworkOnly / CosmeticOnly engines vs engines built from only the network / cosmetic lines: bytes. non-trivial = input reaches a "
             "specific parser; list has >= 1 rejected and >= 1 accepted line; hosts list blocks; list has both kinds. distinct = hash of seed / list.",
        assumptions=["serialized bytes are a sound equality proxy because serialization is deterministic (C09)"],
        floors=(1_500_000, 40_000, 30_000_000, 400_000),
        extra_thorough=[stage(config="native-css", budget_s=240, args=["--set", "only=total"], name="css", count_coverage=False),
                        stage(config="asan", budget_s=300, args=["--set", "only=total", "--set", "scale=0.04"], name="asan", count_coverage=False, run_env={"ASAN_OPTIONS": "detect_leaks=0:halt_on_error=1:abort_on_error=1:allocator_may_return_null=1"})],
    ),
    "C19": {
        "level": "exploration",
        "rule": "diff: 4 000 (thorough 80 000) seeded cases of (regex-heavy rule list with cosmetic rules, 24 mixed network/csp/cosmetic/class-id "
                "queries, optimise flag, discard policy) answered by the thread-safe build and by the single-thread build (peer process); digests "
                "must be equal. conc: batches on one shared &Engine in the thread-safe build: N in {2,4,8,16} threads each running the same 400 "
                "mixed queries from different offsets, discard policy 1ns/1ns, 50us/20us or default, yields / micro-sleeps / spins injected "
                "through the pre-acquire hook (between critical sections); every concurrent answer compared with the sequential answer "
                "computed beforehand on the same engine; thread panics and poisoned locks reported; batch completion under a 120 s watchdog. "
                "rounds: 3-6 concurrent batches (3-12 threads) on one engine alternating with a state change made on yet another thread "
                "(use/enable/disable tags over tagged regex twins, serialize+reload into the same engine); every answer compared with a fresh "
                "engine built sequentially for the model state. "
                "The H5 hook records the regex-manager acquisition order. tsan: the same concurrent workload (smaller) in a ThreadSanitizer "
                "build of harness + crate + std (-Zbuild-std), event logging off so that the hook adds no synchronisation; any report is a "
                "violation. non-trivial = a batch whose acquisition order has >= 2N thread switches and involves all N threads (distinct = "
                "hash of the acquisition order), or a differential case with a non-default answer.",
        "assumptions": [STRICT.replace("default +", "embedded-domain-resolver + full-regex-handling (no unsync-regex-caching) +"),
                        "schedules are whatever the OS produces under injected delays on 16 cores; no exhaustive interleaving coverage is claimed",
                        "a watchdog firing that does not reproduce on the single journaled case is inconclusive, never a violation",
                        "if the thread-safe configuration stops compiling while the default one compiles, that is reported as a violation (static Send+Sync assertion)"],
        "floor": {"quick": {"evaluations": 400_000, "nontrivial": 300}, "thorough": {"evaluations": 8_000_000, "nontrivial": 4_000}},
        "tiers": {
            "quick": {"stages": [
                stage(config="native-sync", budget_s=90, needs=["native"], args=["--set", "peer={bin:native}"], name="native-sync",
                      on_build_failure="violation_if_native_builds", hang_is_violation=True),
                stage(config="tsan-sync", budget_s=120, watchdog_s=900, shards=4, args=["--set", "mode=conc-only", "--set", "tsan=1"], name="tsan",
                      run_env={"TSAN_OPTIONS": "halt_on_error=1 abort_on_error=0 exitcode=66 report_signal_unsafe=0"}, count_coverage=False),
            ]},
            "thorough": {"stages": [
                stage(config="native-sync", budget_s=600, needs=["native"], args=["--set", "peer={bin:native}"], name="native-sync",
                      on_build_failure="violation_if_native_builds", hang_is_violation=True),
                stage(config="tsan-sync", budget_s=600, watchdog_s=2400, shards=8, args=["--set", "mode=conc-only", "--set", "tsan=1"], name="tsan",
                      run_env={"TSAN_OPTIONS": "halt_on_error=1 abort_on_error=0 exitcode=66 report_signal_unsafe=0"}, count_coverage=False),
                stage(config="miri-sync", budget_s=1500, watchdog_s=3000, shards=1, args=["--set", "mode=conc-only", "--set", "miri=1"], name="miri", count_coverage=False),
            ]},
        },
    },
}

# ---------------------------------------------------------------------------------------------
# Texts for MANIFEST.json (tools/gen_manifest.py)
# ---------------------------------------------------------------------------------------------
MANIFEST_TEXT = {
    "C01": {
        "text": "Runtime differential monitor: the real engine's full verdict is compared with an independent linear scan (every parsed rule "
                "matched alone, hits combined by the documented precedence) on hundreds of thousands of generated (list, tags, request) cases "
                "whose rules and URLs collide on tokens, partial tokens and substrings, plus hosts-format lists, index invariants read through a "
                "walker hook after construction, and (thorough) the shipped EasyList/EasyPrivacy/uBO corpus engine against the recorded request "
                "corpus. Held-on-what-was-observed, with measured counts of non-trivial cases.",
        "note": "Trusts the per-rule matcher (judged by C02/C03) and the crate's id functions for badfilter pairing (judged by C04); "
                "reach is bounded by the generator vocabulary and the corpus; no seahash collisions assumed.",
        "technique": "runtime monitoring: differential oracle (linear-scan reference model) + invariant walker hook over seeded and corpus workloads",
        "design_ref": "DESIGN.md §4.1",
    },
    "C02": {
        "text": "Runtime differential monitor of the real per-rule matcher against an independent ABP pattern matcher: exhaustive over all "
                "patterns up to a length bound on a small alphabet times a small URL universe (still executed, not reasoned about), random "
                "beyond, plus oracle-free weakening relations on every spelling and /re/ rules against the regex crate.",
        "note": "Reference semantics are the harness's reading of ABP/uBO pattern semantics (documented in DESIGN.md §3 O-pattern); "
                "degenerate spellings are excluded from verdicts exactly as the quantifier says.",
        "technique": "runtime monitoring: exhaustive-small-space + random differential against a reference matcher; metamorphic weakening relations",
        "design_ref": "DESIGN.md §4.2",
    },
    "C03": {
        "text": "Runtime differential monitor: the real per-rule matcher and a single-rule engine are compared with an independent interpreter of the "
                "option AST over the exhaustively enumerated type x party x scheme x initiator space (all option sets with up to two type atoms), "
                "plus random initiator-domain lists and match-case on regex rules.",
        "note": "The pattern side is fixed so that options decide; reference choices where the statement is silent are listed in the evidence assumptions.",
        "technique": "runtime monitoring: exhaustive cross-product + random differential against a reference option interpreter",
        "design_ref": "DESIGN.md §4.3",
    },
    "C05": {
        "text": "Runtime differential twins: optimised vs unoptimised engines (and a live Blocker before/after optimize()) answer the same "
                "requests under several tag sets; lists are generated so that rules share buckets and fusion groups, and fusion actually "
                "happening is measured through a walker hook.",
        "note": "Differential only (both sides are the code under test); absolute correctness of each side is C01's job.",
        "technique": "runtime monitoring: differential twins + hook-measured fusion coverage",
        "design_ref": "DESIGN.md §4.5",
    },
    "C04": {
        "text": "Runtime monitors on the real engine: (1) precedence vs the linear-scan reference on lists built so that exceptions, important and "
                "blocking rules hit the same request; (2) oracle-free metamorphic monotonicity of rule addition; (3) badfilter cancellation on "
                "re-spelt vs one-aspect-different twins decided by an independent canonical description.",
        "note": "x never badfilter/csp/removeparam (stated domain); per-rule matching trusted (C02/C03).",
        "technique": "runtime monitoring: reference-model differential + metamorphic relations over seeded workloads",
        "design_ref": "DESIGN.md §4.4",
    },
    "C07": {
        "text": "Runtime model-based monitor: a set model of the enabled tags is stepped alongside the real engine through random histories of "
                "use/enable/disable/deserialize; after each step the tag query and a verdict battery (vs the linear-scan reference with tag-dependent "
                "activity) are compared; tagged rules of every stated category are generated and toggled while they match.",
        "note": "Per-rule matching trusted (C02/C03); deserialize uses buffers of the same list under different tag sets.",
        "technique": "runtime monitoring: model-based history checking against a set model + reference verdicts",
        "design_ref": "DESIGN.md §4.7",
    },
    "C06": {
        "text": "Runtime model-based history monitor: random operation histories are applied to the real engine (and Blocker), and every query "
                "answer is compared with a freshly built twin of the model state; an invariant hook inside the regex cache flags any cache hit "
                "whose compiled regex is not the one the requesting rule compiles to, even when both happen to agree on the URL asked.",
        "note": "Fresh twin is the same code under test built in one batch; absolute correctness is C01's job. Native allocator (address reuse) is part of the setup.",
        "technique": "runtime monitoring: model-based differential over operation histories + invariant at a regex-cache hook",
        "design_ref": "DESIGN.md §4.6",
    },
    "C08": {
        "text": "Runtime differential twins: every generated engine is serialized, loaded into another engine and both answer the same battery of "
                "network, CSP, per-site cosmetic and class/id queries under several tag sets; a walker hook additionally compares the stored "
                "rules field by field so that a dropped field is seen even if no battery request exercises it.",
        "note": "Two recorded defects (removeparam rules and scriptlet permission masks are not serialized) are recognised by defect-aware twins; anything else alarms.",
        "technique": "runtime monitoring: round-trip differential twins + field-level comparison through a walker hook",
        "design_ref": "DESIGN.md §4.8",
    },
    "C09": {
        "text": "Runtime monitor over recorded byte strings: the same rule sequence is built and serialized repeatedly in one process and in fresh "
                "child processes (fresh hash seeds) and the buffers must be one value; a loaded buffer must re-serialize to itself, also after tag "
                "round trips. Lists are sized so that every hash container has many entries, which is measured through a walker hook.",
        "note": "Hash-seed diversity comes from std's per-process/per-map RandomState; digest is a 128-bit non-cryptographic hash computed by the harness.",
        "technique": "runtime monitoring: determinism / fixpoint checks over serialized outputs across processes",
        "design_ref": "DESIGN.md §4.9",
    },
    "C10": {
        "text": "Runtime fault enumeration against the real loader: every prefix, every single-bit flip and every structural-marker substitution of "
                "several small valid buffers, plus random corruptions and all header variants, each applied to an engine with known prior state "
                "under a panic catcher and an allocation monitor; rejected loads must leave bytes and answers untouched, accepted loads must "
                "answer a battery and re-serialize without panicking. Thorough re-runs a stratified sample under AddressSanitizer.",
        "note": "Enumeration is exhaustive for prefixes and bit flips of the listed buffers only; other buffers are not covered. A clean ASan run is not memory safety.",
        "technique": "runtime monitoring: exhaustive single-fault injection + panic/allocation monitors + state-atomicity oracle; ASan sample",
        "design_ref": "DESIGN.md §4.10",
    },
    "C13": {
        "text": "Runtime differential monitor: the real engine's redirect (and blocked-ness) is compared with an independent selection oracle over "
                "generated rule sets with competing priorities and exceptions and randomised resource stores covering every resource kind.",
        "note": "Priority ties are set-valued in the oracle because bucket order is unspecified.",
        "technique": "runtime monitoring: differential against a reference redirect-selection model",
        "design_ref": "DESIGN.md §4.13",
    },
    "C14": {
        "text": "Runtime differential monitor: rewritten URLs are compared with an independent byte-level rewriter and checked by oracle-free "
                "preservation monitors on hostile query strings.",
        "note": "The raw URL string given to Request::new is what is rewritten.",
        "technique": "runtime monitoring: differential against a reference rewriter + preservation invariants on outputs",
        "design_ref": "DESIGN.md §4.14",
    },
    "C15": {
        "text": "Runtime differential monitor: returned CSP directive sets are compared with the reference union-minus-exceptions set and with the "
                "answer of an engine built from a permutation of the same rules.",
        "note": "Set comparison; order of directives in the output string is unspecified.",
        "technique": "runtime monitoring: differential against a reference set model + order-permutation metamorphic check",
        "design_ref": "DESIGN.md §4.15",
    },
    "C16": {
        "text": "Runtime differential monitor: per-site cosmetic answers of the real engine are compared, for every page of a host universe, with a "
                "string-level scoping model (label-aligned parent domains, entity forms, negations, exceptions, actions, scriptlets, generichide).",
        "note": "Model written from the documented behaviour; PSL split of the page hosts is hand-written ground truth.",
        "technique": "runtime monitoring: differential against a reference scoping model",
        "design_ref": "DESIGN.md §4.16",
    },
    "C17": {
        "text": "Runtime monitor: the generic class/id lookup is checked for exactness against a CSS-unescaping key model and for the partition "
                "invariant (every generic selector reachable exactly one way) across generated selector sets.",
        "note": "Exotic identifiers are held only to the partition clause so that no correct implementation is flagged.",
        "technique": "runtime monitoring: reference key model + partition invariant over API observations",
        "design_ref": "DESIGN.md §4.17",
    },
    "C18": {
        "text": "Runtime monitors on the real cosmetic/scriptlet pipeline: the exhaustive 256x256 permission matrix, randomised dependency graphs with "
                "competing list permissions on one page observed under many hash-iteration orders (safety and completeness oracles), and hostile "
                "argument strings whose emitted literals are re-lexed by a strict JSON string lexer and compared with the intended arguments.",
        "note": "Function-style scriptlets only for argument encoding (as the statement says); template-style substitution is outside it.",
        "technique": "runtime monitoring: exhaustive small matrix + randomized safety/completeness oracles + output re-parsing",
        "design_ref": "DESIGN.md §4.18",
    },
    "C20": {
        "text": "Runtime monitor on the real exporter: generated hostile rule sets are converted under a panic catcher and every emitted rule is "
                "checked by output monitors (ASCII, Safari regex subset, domain-list exclusivity, ordering, filters_used bookkeeping vs per-rule "
                "conversion, plain-pattern implication against a single-rule engine).",
        "note": "filters_used and implication use the code under test on single rules as a metamorphic reference.",
        "technique": "runtime monitoring: totality under catch_unwind + output well-formedness monitors + metamorphic single-rule comparison",
        "design_ref": "DESIGN.md §4.20",
    },
    "C12": {
        "text": "Runtime monitor on request construction: totality under a panic catcher over mutated URL strings, and for URLs that parse an "
                "independent host extractor, a hand-written registrable-domain table, scheme classification rules and a preparsed-vs-new "
                "differential (fields, tokens and verdicts on a battery engine). Thorough repeats a sample under AddressSanitizer.",
        "note": "PSL ground truth is limited to the table's hosts; the url crate is a second opinion on the plain sub-domain only.",
        "technique": "runtime monitoring: totality + reference extraction/classification + differential between two constructors",
        "design_ref": "DESIGN.md §4.12",
    },
    "C11": {
        "text": "Runtime monitor on the real parsers: grammar-aware mutation of shipped and synthetic rules (a multi-byte character at every slicing "
                "offset, truncation at every offset, special-character deletion/duplication) through every parsing entry point under a panic "
                "catcher, plus differential engines for line independence, hosts-format equivalence and rule-type options (compared by serialized "
                "bytes and a query battery). Thorough repeats totality with the css-validation feature.",
        "note": "Totality is judged with debug assertions and overflow checks on.",
        "technique": "runtime monitoring: mutation-driven totality under catch_unwind + differential twins by bytes and battery",
        "design_ref": "DESIGN.md §4.11",
    },
    "C19": {
        "text": "Runtime monitoring of the thread-safe build: a configuration differential against the single-thread build, concurrent-equals-"
                "sequential checking of every answer on a shared engine under injected delays with the lock acquisition order recorded through a "
                "hook (evidence reports how many batches actually interleaved), bounded-progress watchdog, and the same workload under "
                "ThreadSanitizer with the standard library instrumented. Deadlock-freedom is restated as bounded progress.",
        "note": "Held on the schedules observed; TSan understands std's Mutex because std is rebuilt instrumented (-Zbuild-std).",
        "technique": "runtime monitoring: concurrent-vs-sequential differential under delay injection, acquisition-order event log, ThreadSanitizer",
        "design_ref": "DESIGN.md §4.19",
    },
}

_PENDING = "check not built yet in this round (planned: see DESIGN.md §4); not claimed until its monitor exists and is silent on the unchanged tree"
NOT_APPLICABLE = {("C%02d" % i): _PENDING for i in range(1, 21)}
