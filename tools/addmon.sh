#!/bin/bash
# usage: tools/addmon.sh c03  -- registers harness/src/mon/<name>.rs in mod.rs and main.rs
n=$1; N=$(echo $n | tr a-z A-Z)
grep -q "pub mod $n;" /verif/harness/src/mon/mod.rs || echo "pub mod $n;" >> /verif/harness/src/mon/mod.rs
grep -q "\"$N\" =>" /verif/harness/src/main.rs || sed -i "s/        other => {\n            eprintln!(\"unknown property/&/; /\"C01\" => mon::c01::run/a\        \"$N\" => mon::$n::run(\&mut ctx)," /verif/harness/src/main.rs
