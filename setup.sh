#!/bin/bash
# setup_cmd: pre-build the harness configurations offline so that the first check does not pay
# for a cold build. Every check rebuilds incrementally from /repo's current tree anyway.
set -e
cd "$(dirname "$0")"
export CARGO_NET_OFFLINE=true
cp -n /repo/Cargo.lock harness/Cargo.lock 2>/dev/null || true
./check build native
# the remaining configurations are built on demand by the checks that use them (C19: native-sync,
# tsan-sync; thorough tiers: asan, native-css); pre-build the quick-tier ones.
./check build native-sync || true
