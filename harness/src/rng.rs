//! Deterministic PRNG (SplitMix64). Every random choice in the harness derives from
//! (VERIF_SEED, property salt, case index) so that any case is regenerated from three integers.

#[derive(Clone)]
pub struct Rng(pub u64);

impl Rng {
    pub fn new(seed: u64) -> Self {
        Rng(seed ^ 0x5DEECE66D)
    }

    /// PRNG for one case: mixes seed, a per-monitor salt and the case index.
    pub fn for_case(seed: u64, salt: &str, idx: u64) -> Self {
        let mut h = seed.wrapping_mul(0x9E3779B97F4A7C15) ^ 0xD1B54A32D192ED03;
        for b in salt.bytes() {
            h = (h ^ b as u64).wrapping_mul(0x100000001B3);
        }
        h ^= idx.wrapping_mul(0xBF58476D1CE4E5B9);
        let mut r = Rng(h);
        r.next();
        r.next();
        r
    }

    pub fn next(&mut self) -> u64 {
        self.0 = self.0.wrapping_add(0x9E3779B97F4A7C15);
        let mut z = self.0;
        z = (z ^ (z >> 30)).wrapping_mul(0xBF58476D1CE4E5B9);
        z = (z ^ (z >> 27)).wrapping_mul(0x94D049BB133111EB);
        z ^ (z >> 31)
    }

    pub fn below(&mut self, n: usize) -> usize {
        if n == 0 {
            0
        } else {
            (self.next() % n as u64) as usize
        }
    }

    pub fn range(&mut self, lo: usize, hi_incl: usize) -> usize {
        lo + self.below(hi_incl - lo + 1)
    }

    pub fn chance(&mut self, num: usize, den: usize) -> bool {
        self.below(den) < num
    }

    pub fn pick<'a, T>(&mut self, v: &'a [T]) -> &'a T {
        &v[self.below(v.len())]
    }

    pub fn ps(&mut self, v: &[&'static str]) -> &'static str {
        v[self.below(v.len())]
    }

    pub fn shuffle<T>(&mut self, v: &mut [T]) {
        for i in (1..v.len()).rev() {
            let j = self.below(i + 1);
            v.swap(i, j);
        }
    }
}

/// 64-bit FNV-1a, used to count distinct cases (independent of the crate's seahash).
pub fn fnv(s: &str) -> u64 {
    let mut h: u64 = 0xcbf29ce484222325;
    for b in s.bytes() {
        h = (h ^ b as u64).wrapping_mul(0x100000001B3);
    }
    h
}

pub fn fnv_bytes(s: &[u8]) -> u64 {
    let mut h: u64 = 0xcbf29ce484222325;
    for b in s {
        h = (h ^ *b as u64).wrapping_mul(0x100000001B3);
    }
    h
}

/// 128-bit digest (two independent FNV-style lanes) for byte-buffer equality across processes.
pub fn digest128(s: &[u8]) -> String {
    let mut a: u64 = 0xcbf29ce484222325;
    let mut b: u64 = 0x84222325cbf29ce4;
    for (i, x) in s.iter().enumerate() {
        a = (a ^ *x as u64).wrapping_mul(0x100000001B3);
        b = (b.rotate_left(5) ^ (*x as u64 + i as u64)).wrapping_mul(0x9E3779B97F4A7C15);
    }
    format!("{:016x}{:016x}", a, b)
}
