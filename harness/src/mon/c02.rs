//! C02 — a rule's pattern matches a URL exactly when ABP pattern semantics say so.
//!
//! (exh)   exhaustive bodies over a small alphabet x anchors x rule hosts x URL universe vs O-pattern
//! (weak)  weakening relations on ALL spellings (oracle-free)
//! (rand)  longer random patterns / URLs from the collision vocabulary vs O-pattern
//! (scheme) scheme-only and scheme-prefixed patterns
//! (regex) `/re/` rules vs the regex crate evaluated by the harness

use crate::gen;
use crate::oracle::pattern::{self, degenerate, occurrences, reference, spell, Anchor};
use crate::report::{guarded, Ctx};
use crate::rng::{fnv, Rng};
use adblock::filters::network::{NetworkFilter, NetworkMatchable};
use adblock::regex_manager::RegexManager;
use adblock::request::Request;
use serde_json::json;
use std::collections::HashMap;

const ANCHORS: [Anchor; 6] = [
    Anchor::None,
    Anchor::Left,
    Anchor::Right,
    Anchor::Both,
    Anchor::Host,
    Anchor::HostRight,
];
const RULE_HOSTS: [&str; 3] = ["a.b", "b", "b.a.b"];

struct Univ {
    reqs: Vec<(Request, String, String)>, // request, host, lower-cased url
}

/// Universe for patterns whose literals are regex metacharacters (`+ ( [ ? $ .`): every path over
/// {a + ( [ ?} up to length 3 on one host.
fn meta_universe() -> Univ {
    let alpha = ['a', '+', '(', '[', '?', '.'];
    let mut paths: Vec<String> = vec![String::new()];
    let mut frontier = vec![String::new()];
    for _ in 0..3 {
        let mut nf = vec![];
        for p in &frontier {
            for c in alpha {
                let mut s = p.clone();
                s.push(c);
                nf.push(s);
            }
        }
        paths.extend(nf.iter().cloned());
        frontier = nf;
    }
    let mut reqs = vec![];
    for p in paths {
        let u = format!("https://a.b/{}", p);
        if let Ok(rq) = Request::new(&u, "https://zz.zz/", "script") {
            let lower = rq.url.to_ascii_lowercase();
            if lower == u {
                reqs.push((rq, "a.b".to_string(), lower));
            }
        }
    }
    Univ { reqs }
}

fn universe() -> Univ {
    // (the last two extend the final label of a rule host that occurs only once in them)
    let hosts = ["a.b", "b.a.b", "ab.b", "a.b.a.b", "ba.b", "a.b.b", "a.bb", "a.ba.a"];
    let paths = ["/", "/a", "/a/b", "/ab.a", "/b?a=b", "/a.b/a", "/a/", "/b/a.b", "/a-b", "/b^a"];
    let mut reqs = vec![];
    for sch in ["http", "https", "ws"] {
        for h in hosts {
            for p in paths {
                if sch == "ws" && p.len() > 3 {
                    continue;
                }
                let u = format!("{}://{}{}", sch, h, p);
                let ty = if sch == "ws" { "websocket" } else { "script" };
                if let Ok(rq) = Request::new(&u, "https://zz.zz/", ty) {
                    let lower = rq.url.to_ascii_lowercase();
                    reqs.push((rq, h.to_string(), lower));
                }
            }
        }
    }
    Univ { reqs }
}

fn nth_body(mut k: u64, alpha: &[u8]) -> String {
    // k = 0 -> "", then all strings of length 1, 2, ... in lexicographic order of digits
    if k == 0 {
        return String::new();
    }
    k -= 1;
    let a = alpha.len() as u64;
    let mut len = 1;
    let mut block = a;
    while k >= block {
        k -= block;
        len += 1;
        block *= a;
    }
    let mut v = vec![0u8; len];
    for i in (0..len).rev() {
        v[i] = alpha[(k % a) as usize];
        k /= a;
    }
    String::from_utf8(v).unwrap()
}

fn count_bodies(alpha: usize, maxlen: u32) -> u64 {
    let mut n = 1u64;
    let mut b = 1u64;
    for _ in 0..maxlen {
        b *= alpha as u64;
        n += b;
    }
    n
}

fn url_prefix_through_host<'a>(url: &'a str, host: &str) -> &'a str {
    match url.find("://") {
        Some(i) => &url[..(i + 3 + host.len()).min(url.len())],
        None => url,
    }
}

/// Classify a disagreement between engine and reference. Returns the violation signature.
fn classify(anchor: Anchor, rule_host: &str, got: bool, exp: bool, url: &str, req_host: &str) -> String {
    let host_anchored = matches!(anchor, Anchor::Host | Anchor::HostRight);
    if host_anchored && !got && exp && occurrences(url_prefix_through_host(url, req_host), rule_host) >= 2 {
        // D2: only the first occurrence of the rule's host text is examined
        return "C02:host-multi-occurrence:false-negative".to_string();
    }
    format!(
        "C02:pattern-mismatch:{:?}:{}",
        anchor,
        if got { "false-positive" } else { "false-negative" }
    )
}

pub fn run(ctx: &mut Ctx) {
    let univ = universe();
    exhaustive(ctx, &univ);
    let meta = meta_universe();
    exhaustive_meta(ctx, &meta);
    weakening(ctx, &univ);
    random(ctx);
    company(ctx);
    scheme(ctx);
    full_regex(ctx);
}

fn exhaustive(ctx: &mut Ctx, univ: &Univ) {
    let plans: Vec<(&str, Vec<u8>, u32)> = if ctx.quick() {
        vec![("exh6", b"ab/.*^".to_vec(), 6)]
    } else {
        vec![("exh6", b"ab/.*^".to_vec(), 8), ("exh8", b"ab/.*^-?".to_vec(), 6)]
    };
    for (sub, alpha, maxlen) in plans {
        let total = count_bodies(alpha.len(), maxlen);
        let mut complete = true;
        for k in 0..total {
            if ctx.stop() {
                complete = false;
                break;
            }
            if !ctx.begin_case(sub, k) {
                continue;
            }
            let body = nth_body(k, &alpha);
            let r = guarded(|| exhaustive_body(&body, univ));
            match r {
                Err(sig) => ctx.violation(sub, k, &format!("C02:{}", sig), json!({"body": body})),
                Ok(out) => {
                    ctx.evals(out.evals);
                    ctx.obs("reference_matches", out.matches as i64);
                    ctx.obs("parse_errors", out.parse_err as i64);
                    ctx.obs("lines_checked", out.lines as i64);
                    for h in out.nt {
                        ctx.nontrivial(h);
                    }
                    if let Some(s) = out.sample {
                        ctx.sample_tagged("exhaustive", || s);
                    }
                    for (sig, detail) in out.viol {
                        ctx.violation(sub, k, &sig, detail);
                    }
                }
            }
        }
        if complete && ctx.only_case.is_none() && ctx.nshards >= 1 {
            ctx.report.exhaustive.push(format!(
                "all pattern bodies over alphabet {:?} up to length {} (shard {}/{} of {} bodies) x 6 anchors x rule hosts {:?} x {} URLs",
                String::from_utf8_lossy(&alpha), maxlen, ctx.shard, ctx.nshards, total, RULE_HOSTS, univ.reqs.len()
            ));
        }
    }
}

/// Patterns whose literal characters are regex metacharacters.
fn exhaustive_meta(ctx: &mut Ctx, univ: &Univ) {
    let sub = "meta";
    let alpha = b"a+([?.*^".to_vec();
    let maxlen = if ctx.quick() { 4 } else { 6 };
    let total = count_bodies(alpha.len(), maxlen);
    let mut complete = true;
    for k in 0..total {
        if ctx.stop() {
            complete = false;
            break;
        }
        if !ctx.begin_case(sub, k) {
            continue;
        }
        let body = nth_body(k, &alpha);
        let r = guarded(|| exhaustive_body(&body, univ));
        match r {
            Err(sig) => ctx.violation(sub, k, &format!("C02:{}", sig), json!({"body": body})),
            Ok(out) => {
                ctx.evals(out.evals);
                ctx.obs("meta_reference_matches", out.matches as i64);
                ctx.obs("meta_lines_checked", out.lines as i64);
                for h in out.nt {
                    ctx.nontrivial(h);
                }
                if let Some(s) = out.sample {
                    ctx.sample_tagged("meta", || s);
                }
                for (sig, detail) in out.viol {
                    ctx.violation(sub, k, &sig, detail);
                }
            }
        }
    }
    if complete && ctx.only_case.is_none() {
        ctx.report.exhaustive.push(format!(
            "all pattern bodies over the regex-metacharacter alphabet \"a+([?.*^\" up to length {} x 6 anchors x rule hosts x {} URLs whose paths range over {{a + ( [ ? .}}^<=3 (this shard's share)",
            maxlen,
            univ.reqs.len()
        ));
    }
}

struct ExhOut {
    evals: u64,
    matches: u64,
    parse_err: u64,
    lines: u64,
    nt: Vec<u64>,
    sample: Option<serde_json::Value>,
    viol: Vec<(String, serde_json::Value)>,
}

fn exhaustive_body(body: &str, univ: &Univ) -> ExhOut {
    let mut out = ExhOut {
        evals: 0,
        matches: 0,
        parse_err: 0,
        lines: 0,
        nt: vec![],
        sample: None,
        viol: vec![],
    };
    for anchor in ANCHORS {
        if degenerate(anchor, body) {
            continue;
        }
        let host_anchored = matches!(anchor, Anchor::Host | Anchor::HostRight);
        let hostlist: &[&str] = if host_anchored { &RULE_HOSTS } else { &[""] };
        if body.is_empty() && anchor != Anchor::Host {
            continue;
        }
        // host/pattern split must be unambiguous
        if host_anchored && !body.is_empty() && !matches!(body.as_bytes()[0], b'/' | b'^' | b'*') {
            continue;
        }
        for rh in hostlist {
            let line = spell(anchor, rh, body);
            if line.len() < 2 {
                continue;
            }
            let f = match NetworkFilter::parse(&line, true, Default::default()) {
                Ok(f) => f,
                Err(_) => {
                    out.parse_err += 1;
                    continue;
                }
            };
            out.lines += 1;
            let mut rm = RegexManager::default();
            // second pass after the compiled regex has been discarded (it is recreated lazily):
            // the recreated regex must give the same answers
            let mut first_pass: Vec<bool> = Vec::with_capacity(univ.reqs.len());
            for (rq, _, _) in &univ.reqs {
                first_pass.push(f.matches(rq, &mut rm));
            }
            rm.discard_regex(&f as *const NetworkFilter as u64);
            for (i, (rq, _, u)) in univ.reqs.iter().enumerate() {
                if f.matches(rq, &mut rm) != first_pass[i] {
                    out.viol.push((
                        "C02:answer-changes-after-regex-discard-and-recreate".to_string(),
                        json!({"rule": line, "url": u, "before_discard": first_pass[i], "after_recreate": !first_pass[i]}),
                    ));
                    break;
                }
            }
            rm.discard_regex(&f as *const NetworkFilter as u64);
            for (rq, h, u) in &univ.reqs {
                let got = f.matches(rq, &mut rm);
                let exp = reference(anchor, rh, body, u, h);
                out.evals += 1;
                if exp {
                    out.matches += 1;
                    if out.nt.len() < 4 {
                        out.nt.push(fnv(&format!("{}|{}", line, u)));
                    }
                    if out.sample.is_none() {
                        out.sample = Some(json!({"rule": line, "url": u, "reference": exp, "engine": got}));
                    }
                }
                if got != exp {
                    let sig = classify(anchor, rh, got, exp, u, h);
                    if out.viol.len() < 8 {
                        out.viol.push((sig, json!({"rule": line, "url": u, "engine": got, "reference": exp})));
                    } else {
                        out.viol.push((sig, json!({})));
                    }
                }
            }
        }
    }
    out
}

fn is_regex_spelling(body: &str) -> bool {
    body.len() > 1 && body.starts_with('/') && body.ends_with('/')
}

/// Oracle-free: deleting a leading `|`, deleting a trailing `|`, or replacing one literal or `^`
/// by `*` can only enlarge the set of universe URLs the rule matches.
fn weakening(ctx: &mut Ctx, univ: &Univ) {
    let sub = "weak";
    let alpha = b"ab/.*^".to_vec();
    let maxlen = if ctx.quick() { 5 } else { 7 };
    let total = count_bodies(alpha.len(), maxlen);
    let mut cache: HashMap<String, Option<Vec<bool>>> = HashMap::new();
    let mut complete = true;
    for k in 1..total {
        if ctx.stop() {
            complete = false;
            break;
        }
        if !ctx.begin_case(sub, k) {
            continue;
        }
        let b = nth_body(k, &alpha);
        let res = guarded(|| {
            let mut fails: Vec<(String, String, String, String)> = vec![];
            let mut checked = 0u64;
            let mut nontrivial = 0u64;
            let mut eval = |line: &str, cache: &mut HashMap<String, Option<Vec<bool>>>| -> Option<Vec<bool>> {
                if let Some(v) = cache.get(line) {
                    return v.clone();
                }
                let v = NetworkFilter::parse(line, true, Default::default()).ok().map(|f| {
                    let mut rm = RegexManager::default();
                    univ.reqs.iter().map(|(rq, _, _)| f.matches(rq, &mut rm)).collect::<Vec<bool>>()
                });
                if cache.len() > 200_000 {
                    cache.clear();
                }
                cache.insert(line.to_string(), v.clone());
                v
            };
            let mut relate = |name: &str, strong: String, weak: String, sb: &str, wb: &str, cache: &mut HashMap<String, Option<Vec<bool>>>| {
                if strong.len() < 2 || weak.len() < 2 {
                    return;
                }
                // the edit must not change the *language* of the rule
                if is_regex_spelling(sb) || is_regex_spelling(wb) {
                    return;
                }
                let (s, w) = match (eval(&strong, cache), eval(&weak, cache)) {
                    (Some(s), Some(w)) => (s, w),
                    _ => return,
                };
                checked += 1;
                if s.iter().any(|x| *x) {
                    nontrivial += 1;
                }
                for (i, (sm, wm)) in s.iter().zip(w.iter()).enumerate() {
                    if *sm && !*wm {
                        fails.push((name.to_string(), strong.clone(), weak.clone(), univ.reqs[i].2.clone()));
                        break;
                    }
                }
            };
            relate("drop-left", format!("|{}", b), b.clone(), &b, &b, &mut cache);
            relate("drop-right", format!("{}|", b), b.clone(), &b, &b, &mut cache);
            relate("both-to-left", format!("|{}|", b), format!("|{}", b), &b, &b, &mut cache);
            relate("both-to-right", format!("|{}|", b), format!("{}|", b), &b, &b, &mut cache);
            if matches!(b.as_bytes()[0], b'/' | b'^' | b'*') {
                for h in RULE_HOSTS {
                    relate("host-drop-right", format!("||{}{}|", h, b), format!("||{}{}", h, b), &b, &b, &mut cache);
                }
            }
            for (i, c) in b.bytes().enumerate() {
                if c != b'*' {
                    let mut w = b.clone().into_bytes();
                    w[i] = b'*';
                    let w = String::from_utf8(w).unwrap();
                    let name = if c == b'^' { "sep-to-star" } else { "lit-to-star" };
                    relate(name, b.clone(), w.clone(), &b, &w, &mut cache);
                    relate(&format!("{}-left-anchored", name), format!("|{}", b), format!("|{}", w), &b, &w, &mut cache);
                    relate(&format!("{}-right-anchored", name), format!("{}|", b), format!("{}|", w), &b, &w, &mut cache);
                }
            }
            (fails, checked, nontrivial)
        });
        match res {
            Err(sig) => ctx.violation(sub, k, &format!("C02:{}", sig), json!({"body": b})),
            Ok((fails, checked, nontrivial)) => {
                ctx.evals(checked);
                ctx.obs("weakening_relations_checked", checked as i64);
                ctx.obs("weakening_relations_with_matching_strong_side", nontrivial as i64);
                if nontrivial > 0 {
                    ctx.nontrivial(fnv(&format!("weak|{}", b)));
                }
                for (name, strong, weak, url) in fails {
                    ctx.violation(
                        sub,
                        k,
                        &format!("C02:weakening:{}", name),
                        json!({"relation": name, "stronger_rule": strong, "weaker_rule": weak, "url_matched_only_by_stronger": url}),
                    );
                }
            }
        }
    }
    if complete && ctx.only_case.is_none() {
        ctx.report.exhaustive.push(format!(
            "weakening relations for all bodies over \"ab/.*^\" up to length {} (this shard's share)",
            maxlen
        ));
    }
}

/// Build a random (anchor, host, body) pattern from the collision vocabulary, non-degenerate.
fn gen_pattern(r: &mut Rng) -> (Anchor, String, String) {
    let anchor = *r.pick(&ANCHORS);
    let host_anchored = matches!(anchor, Anchor::Host | Anchor::HostRight);
    let host = if host_anchored {
        r.ps(&["ads.net", "net", "sub.ads.net", "example.org", "b.co.uk", "track.io", "ads", "x.b.co.uk"]).to_string()
    } else {
        String::new()
    };
    loop {
        let mut body = String::new();
        if host_anchored {
            body.push_str(r.ps(&["/", "^", "*", "/", "^"]));
            if r.chance(1, 6) {
                return (anchor, host, if anchor == Anchor::Host { String::new() } else { "/".into() });
            }
        } else if r.chance(1, 3) {
            body.push_str(r.ps(&["/", ".", "-", "_", "://", "="]));
        }
        let n = 1 + r.below(4);
        for i in 0..n {
            if i > 0 {
                body.push_str(r.ps(&["/", ".", "-", "_", "*", "^", "?", "=", "&", "*", "^", "/"]));
            }
            if r.chance(1, 6) {
                body.push_str(r.ps(&["a+b", "c(d", "e[f", "g{h", "i)j", "k]l", "1+1", "x!y", "p'q", "m,n", "s;t", "u@v", "w~z", "%2b", "q++"]));
            } else {
                body.push_str(r.ps(gen::TOK));
            }
        }
        if r.chance(1, 4) {
            body.push_str(r.ps(&["/", "^", ".", "?", "="]));
        }
        if !degenerate(anchor, &body) && body.len() + host.len() >= 2 {
            return (anchor, host, body);
        }
    }
}

fn instantiate(r: &mut Rng, body: &str) -> String {
    let mut out = String::new();
    for c in body.chars() {
        match c {
            '*' => out.push_str(r.ps(&["zz", "", "/q/", "x", "ad"])),
            // inside the path (a '/' was already emitted) a separator placeholder is sometimes followed by a
            // character the separator class excludes on purpose ('%', '_', '-'): near misses (round 10, C02j)
            '^' if out.contains('/') && r.below(4) == 0 => out.push_str(r.ps(&["%20", "%", "_", "-"])),
            '^' => out.push_str(r.ps(&["/", "?", ":", "&", "=", "/", ""])),
            c => out.push(c),
        }
    }
    out
}

fn random(ctx: &mut Ctx) {
    let sub = "rand";
    let cases = ctx.n(150_000, 12_000_000);
    for idx in 0..cases {
        if ctx.stop() {
            break;
        }
        if !ctx.begin_case(sub, idx) {
            continue;
        }
        let seed = ctx.seed;
        let res = guarded(|| {
            let mut r = Rng::for_case(seed, "c02.rand", idx);
            let (anchor, rhost, body) = gen_pattern(&mut r);
            let line = spell(anchor, &rhost, &body);
            let f = match NetworkFilter::parse(&line, true, Default::default()) {
                Ok(f) => f,
                Err(_) => return vec![],
            };
            let mut rm = RegexManager::default();
            let mut out = vec![];
            for _ in 0..6 {
                let scheme = r.ps(&["http", "https", "https", "ws", "wss"]);
                let host_anchored = matches!(anchor, Anchor::Host | Anchor::HostRight);
                let mut host = r.ps(gen::HOSTS).to_string();
                let inst = instantiate(&mut r, &body);
                let mut path = String::new();
                if host_anchored && r.chance(2, 3) {
                    host = match r.below(8) {
                        5 => format!("{}3.example.com", rhost),
                        6 => format!("{}x.{}", rhost, r.ps(&["com", "net"])),
                        // the rule host in the middle, extended by a letter, behind a first label of
                        // exactly its own length (so that host[len(rule host)] is a dot)
                        7 => format!("{}.{}y.com", "p".repeat(rhost.len()), rhost),
                        0 => format!("sub.{}", rhost),
                        1 => format!("x{}", rhost),
                        2 => format!("{}.evil.com", rhost),
                        3 => format!("x{}.{}", rhost, rhost),
                        _ => rhost.clone(),
                    };
                    if host.starts_with('.') || host.ends_with('.') || !host.contains('.') {
                        host = format!("{}.com", host.trim_matches('.'));
                    }
                    if r.chance(3, 4) {
                        path = inst.clone();
                    } else {
                        path = format!("/{}{}", r.ps(gen::TOK), inst);
                    }
                } else {
                    match r.below(5) {
                        0 => path = format!("/{}", inst),
                        1 => path = format!("/lo{}", inst),
                        2 => path = format!("/{}er", inst),
                        3 => path = format!("/{}/{}?{}=1", r.ps(gen::TOK), inst, r.ps(gen::TOK)),
                        _ => path = format!("/{}{}{}", r.ps(gen::TOK), r.ps(gen::SEP), r.ps(gen::TOK)),
                    }
                }
                if !path.starts_with('/') {
                    path = format!("/{}", path.trim_start_matches(|c| c == '^' || c == '*'));
                }
                let mut url = format!("{}://{}{}", scheme, host, path);
                if anchor == Anchor::Left || anchor == Anchor::Both {
                    if r.chance(1, 2) && !inst.is_empty() {
                        url = if inst.contains("://") { inst.clone() } else { url };
                    }
                }
                let ty = if scheme.starts_with("ws") { "websocket" } else { "image" };
                let rq = match Request::new(&url, "https://zz.zz/", ty) {
                    Ok(rq) => rq,
                    Err(_) => continue,
                };
                // stated domain: lower-case host, non-empty path
                let lower = rq.url.to_ascii_lowercase();
                let req_host = rq.hostname.clone();
                if !lower[lower.find("://").map(|i| i + 3).unwrap_or(0)..].starts_with(&req_host) {
                    continue;
                }
                let got = f.matches(&rq, &mut rm);
                let exp = reference(anchor, &rhost, &body.to_ascii_lowercase(), &lower, &req_host);
                out.push((line.clone(), lower, got, exp, anchor, rhost.clone(), req_host));
            }
            out
        });
        match res {
            Err(sig) => ctx.violation(sub, idx, &format!("C02:{}", sig), json!({})),
            Ok(v) => {
                for (line, url, got, exp, anchor, rhost, req_host) in v {
                    ctx.eval();
                    if exp {
                        ctx.nontrivial(fnv(&format!("{}|{}", line, url)));
                        ctx.obs("random_reference_matches", 1);
                        ctx.sample_tagged("random", || json!({"rule": line, "url": url, "reference": exp, "engine": got}));
                    }
                    if got != exp {
                        let sig = classify(anchor, &rhost, got, exp, &url, &req_host);
                        ctx.violation(sub, idx, &sig, json!({"rule": line, "url": url, "engine": got, "reference": exp}));
                    }
                }
            }
        }
    }
}

/// A pattern in the company of its textual relatives (extended, shortened, last character
/// changed; same anchors, same options, hence same bucket and fusion group) inside an optimised
/// engine: the engine must match exactly when one of the rules' patterns matches by the
/// reference. Only disagreements that no single rule shows on its own are reported here.
fn company(ctx: &mut Ctx) {
    let sub = "company";
    let cases = ctx.n(60_000, 4_000_000);
    for idx in 0..cases {
        if ctx.stop() {
            break;
        }
        if !ctx.begin_case(sub, idx) {
            continue;
        }
        let seed = ctx.seed;
        let res = guarded(|| {
            let mut r = Rng::for_case(seed, "c02.company", idx);
            let (anchor, rhost, body) = gen_pattern(&mut r);
            let mut bodies = vec![body.clone()];
            for _ in 0..1 + r.below(3) {
                let base = r.pick(&bodies).clone();
                let v = match r.below(3) {
                    0 => format!("{}{}", base, r.ps(&["b", "?1", ".gif", "2", "/x", "^", "*z"])),
                    1 if base.len() > 2 => base[..base.len() - 1].to_string(),
                    _ if !base.is_empty() => format!("{}{}", &base[..base.len() - 1], r.ps(&["a", "b", "/", "."])),
                    _ => continue,
                };
                if v.is_char_boundary(v.len()) && !degenerate(anchor, &v) && v.len() + rhost.len() >= 2 && !bodies.contains(&v) {
                    bodies.push(v);
                }
            }
            if bodies.len() < 2 {
                return vec![];
            }
            let lines: Vec<String> = bodies.iter().map(|b| spell(anchor, &rhost, b)).collect();
            let fs: Vec<Option<NetworkFilter>> = lines.iter().map(|l| NetworkFilter::parse(l, true, Default::default()).ok()).collect();
            if fs.iter().any(|f| f.is_none()) {
                return vec![];
            }
            let optimize = r.chance(4, 5);
            let e = adblock::Engine::from_rules_parametrised(&lines, Default::default(), true, optimize);
            let mut rm = RegexManager::default();
            let mut out = vec![];
            let host_anchored = matches!(anchor, Anchor::Host | Anchor::HostRight);
            for k in 0..8 {
                let b = &bodies[k % bodies.len()];
                let inst = instantiate(&mut r, b);
                let scheme = r.ps(&["http", "https", "https", "ws"]);
                let host = if host_anchored && r.chance(3, 4) {
                    match r.below(3) {
                        0 => format!("sub.{}", rhost),
                        _ => rhost.clone(),
                    }
                } else {
                    r.ps(gen::HOSTS).to_string()
                };
                if !host.contains('.') {
                    continue;
                }
                let path = if host_anchored {
                    inst.clone()
                } else {
                    match r.below(4) {
                        0 => format!("/lo{}", inst),
                        1 => format!("/{}er", inst),
                        _ => format!("/{}", inst),
                    }
                };
                let path = if path.starts_with('/') { path } else { format!("/{}", path.trim_start_matches(|c| c == '^' || c == '*')) };
                let mut url = format!("{}://{}{}", scheme, host, path);
                if (anchor == Anchor::Left || anchor == Anchor::Both) && inst.contains("://") && r.chance(1, 2) {
                    url = inst.clone();
                }
                let ty = if scheme.starts_with("ws") { "websocket" } else { "image" };
                let rq = match Request::new(&url, "https://zz.zz/", ty) {
                    Ok(rq) => rq,
                    Err(_) => continue,
                };
                // (an instantiated body can itself be a URL with an arbitrary scheme; the engine
                // never matches unsupported schemes, the per-rule matcher does not look at them)
                if !rq.is_supported {
                    continue;
                }
                let lower = rq.url.to_ascii_lowercase();
                let req_host = rq.hostname.clone();
                if !lower[lower.find("://").map(|i| i + 3).unwrap_or(0)..].starts_with(&req_host) {
                    continue;
                }
                let mut want = false;
                let mut singles_agree = true;
                for (b, f) in bodies.iter().zip(fs.iter()) {
                    let exp = reference(anchor, &rhost, &b.to_ascii_lowercase(), &lower, &req_host);
                    let got = f.as_ref().unwrap().matches(&rq, &mut rm);
                    want |= exp;
                    singles_agree &= exp == got;
                }
                let got = e.check_network_request(&rq).matched;
                out.push((lines.clone(), lower, got, want, singles_agree, optimize));
            }
            out
        });
        match res {
            Err(sig) => ctx.violation(sub, idx, &format!("C02:{}", sig), json!({})),
            Ok(v) => {
                for (lines, url, got, want, singles_agree, optimize) in v {
                    ctx.eval();
                    if want {
                        ctx.nontrivial(fnv(&format!("{:?}|{}", lines, url)));
                        ctx.obs("company_reference_matches", 1);
                    }
                    if got != want && singles_agree {
                        ctx.violation(
                            sub,
                            idx,
                            if want { "C02:pattern-lost-in-company" } else { "C02:pattern-gained-in-company" },
                            json!({"rules": lines, "optimize": optimize, "url": url, "engine_matched": got, "some_rule_matches_by_reference": want}),
                        );
                    }
                }
            }
        }
    }
}

/// Scheme patterns: `|http://`, `|https://`, `|ws://`, `|wss://`, `|http*://` alone and with a suffix.
fn scheme(ctx: &mut Ctx) {
    let sub = "scheme";
    let prefixes = ["http://", "https://", "ws://", "wss://", "http*://"];
    let suffixes = ["", "ads.net", "ads.net/", "ads.net/ad", "*/ad", "ads.net^"];
    let urls: Vec<String> = ["http", "https", "ws", "wss"]
        .iter()
        .flat_map(|s| {
            ["ads.net/", "ads.net/ad", "sub.ads.net/ad", "example.org/ad", "ads.net/x?ad=1"]
                .iter()
                .map(move |p| format!("{}://{}", s, p))
        })
        .collect();
    let mut idx = 0u64;
    for pre in prefixes {
        for suf in suffixes {
            idx += 1;
            if !ctx.begin_case(sub, idx) {
                continue;
            }
            let body = format!("{}{}", pre, suf);
            let line = format!("|{}", body);
            let res = guarded(|| {
                let f = NetworkFilter::parse(&line, true, Default::default()).ok()?;
                let mut rm = RegexManager::default();
                let mut v = vec![];
                for u in &urls {
                    let ty = if u.starts_with("ws") { "websocket" } else { "script" };
                    let rq = Request::new(u, "https://zz.zz/", ty).ok()?;
                    let got = f.matches(&rq, &mut rm);
                    let exp = pattern::match_at(body.as_bytes(), rq.url.to_ascii_lowercase().as_bytes(), false);
                    v.push((u.clone(), got, exp));
                }
                Some(v)
            });
            match res {
                Err(sig) => ctx.violation(sub, idx, &format!("C02:{}", sig), json!({"rule": line})),
                Ok(None) => ctx.obs("scheme_rule_unparsable", 1),
                Ok(Some(v)) => {
                    for (u, got, exp) in v {
                        ctx.eval();
                        ctx.obs("scheme_evals", 1);
                        if exp {
                            ctx.nontrivial(fnv(&format!("{}|{}", line, u)));
                        }
                        if got != exp {
                            let sig = if suf.is_empty() && pre == "ws://" && got && u.starts_with("wss://") {
                                "C02:scheme-only:ws-rule-matches-wss".to_string()
                            } else if suf.is_empty() && pre == "http*://" && got && u.starts_with("ws") {
                                "C02:scheme-only:http-star-rule-matches-websocket-scheme".to_string()
                            } else {
                                format!("C02:scheme-pattern:{}:{}", pre, if got { "false-positive" } else { "false-negative" })
                            };
                            ctx.violation(sub, idx, &sig, json!({"rule": line, "url": u, "engine": got, "reference": exp}));
                        }
                    }
                }
            }
        }
    }
}

/// `/re/` rules from a small lower-case regex grammar vs the regex crate evaluated by the harness.
fn full_regex(ctx: &mut Ctx) {
    let sub = "regex";
    let cases = ctx.n(6_000, 1_000_000);
    for idx in 0..cases {
        if ctx.stop() {
            break;
        }
        if !ctx.begin_case(sub, idx) {
            continue;
        }
        let seed = ctx.seed;
        let res = guarded(|| {
            let mut r = Rng::for_case(seed, "c02.regex", idx);
            let mut spelled = gen::gen_regex_body(&mut r);
            if r.chance(1, 3) {
                // upper-case some literal letters of the rule (never the letter of an escape):
                // without match-case the rule must match as if it had been written in lower case
                let mut out = String::new();
                let mut prev = ' ';
                for c in spelled.chars() {
                    if c.is_ascii_lowercase() && prev != '\\' && r.chance(1, 3) {
                        out.push(c.to_ascii_uppercase());
                    } else {
                        out.push(c);
                    }
                    prev = c;
                }
                spelled = out;
            }
            let match_case = r.chance(1, 4);
            let line = if match_case { format!("{}$match-case", spelled) } else { spelled.clone() };
            let f = NetworkFilter::parse(&line, true, Default::default()).ok()?;
            let inner = spelled[1..spelled.len() - 1].replace("\\/", "/");
            let re = regex::Regex::new(&if match_case { inner.clone() } else { inner.to_ascii_lowercase() }).ok()?;
            let mut rm = RegexManager::default();
            let mut v = vec![];
            for _ in 0..6 {
                let inst = gen::instantiate_body(&mut r, &spelled);
                let host = r.ps(gen::HOSTS);
                let mut url = match r.below(4) {
                    0 => format!("https://{}/{}", host, inst),
                    1 => format!("http://{}/x{}y", host, inst),
                    2 => format!("https://{}/{}/{}", host, r.ps(gen::TOK), inst),
                    _ => format!("https://{}/{}.{}", host, r.ps(gen::TOK), r.ps(gen::TOK)),
                };
                if r.chance(1, 4) {
                    // upper-case part of the path: only matters under match-case
                    let p = url.find(host).map(|i| i + host.len()).unwrap_or(url.len());
                    let (a, b) = url.split_at(p);
                    url = format!("{}{}", a, b.to_ascii_uppercase());
                }
                let rq = Request::new(&url, "https://zz.zz/", "script").ok()?;
                let got = f.matches(&rq, &mut rm);
                let subject = if match_case { rq.url.clone() } else { rq.url.to_ascii_lowercase() };
                let exp = re.is_match(&subject);
                v.push((url, got, exp));
            }
            Some((line, v))
        });
        match res {
            Err(sig) => ctx.violation(sub, idx, &format!("C02:{}", sig), json!({})),
            Ok(None) => ctx.obs("regex_rule_skipped", 1),
            Ok(Some((line, v))) => {
                for (u, got, exp) in v {
                    ctx.eval();
                    ctx.obs("regex_evals", 1);
                    if exp {
                        ctx.obs("regex_reference_matches", 1);
                        ctx.nontrivial(fnv(&format!("{}|{}", line, u)));
                        ctx.sample_tagged("regex", || json!({"rule": line, "url": u, "reference": exp, "engine": got}));
                    }
                    if got != exp {
                        ctx.violation(
                            sub,
                            idx,
                            &format!("C02:full-regex:{}", if got { "false-positive" } else { "false-negative" }),
                            json!({"rule": line, "url": u, "engine": got, "reference": exp}),
                        );
                    }
                }
            }
        }
    }
}
