//! C20 — content-blocking export is total and emits only well-formed, ordered rules.
//!
//! `FilterSet::new(true)` + generated rule sets -> `into_content_blocking()` under catch_unwind.
//! Output monitors: every rule ASCII; `url-filter` within the regex subset Safari accepts (own
//! validator) and compilable; never both if-domain and unless-domain; no ignore-previous-rules
//! entry precedes a blocking entry; `filters_used` equals (as a sequence) the input lines that
//! produce output when converted alone; for plain patterns every battery URL the original rule
//! matches is matched by the emitted url-filter.

use crate::report::{guarded, Ctx};
use crate::rng::{fnv, Rng};
use adblock::content_blocking::{CbRule, CbType};
use adblock::lists::{parse_filter, FilterSet, ParseOptions, ParsedFilter};
use adblock::request::Request;
use adblock::Engine;
use serde_json::json;

const TOK: &[&str] = &["ad", "ads", "banner", "img", "track", "foo", "x1", "a.b", "q?x", "p+q", "(z)", "[k]", "{m}", "a|b", "c$d", "e\\f", "Ad", "ü", "%20", "a,b", "\"q\"", "~t", "#h"];
const SEP: &[&str] = &["/", ".", "-", "_", "?", "=", "&"];
const HOSTS: &[&str] = &["ads.net", "sub.ads.net", "a.com", "b.co.uk", "example.org", "bücher.de", "xn--bcher-kva.de", "loadvid.onlin\u{200d}e", "EXAMPLE.com", "a_b.com", "münchen.example", "-bad-.com"];

fn pat(r: &mut Rng) -> String {
    let mut s = String::new();
    let n = 1 + r.below(3);
    if r.chance(1, 3) {
        s.push_str(r.ps(SEP));
    }
    for i in 0..n {
        if i > 0 {
            if r.chance(1, 6) {
                s.push('*');
            } else if r.chance(1, 6) {
                s.push('^');
            } else {
                s.push_str(r.ps(SEP));
            }
        }
        s.push_str(r.ps(TOK));
    }
    if r.chance(1, 6) {
        s.push('^');
    }
    s
}

fn net_rule(r: &mut Rng) -> String {
    let mut s = String::new();
    if r.chance(1, 5) {
        s.push_str("@@");
    }
    match r.below(8) {
        0 => {
            s.push_str("||");
            s.push_str(r.ps(HOSTS));
            s.push('^');
        }
        1 => {
            s.push_str("||");
            s.push_str(r.ps(HOSTS));
            s.push('/');
            s.push_str(&pat(r));
        }
        2 => {
            s.push('|');
            s.push_str(r.ps(&["https://", "http://", "ws://", "wss://", "http*://"]));
            if r.chance(1, 2) {
                s.push_str(r.ps(HOSTS));
                s.push('/');
                s.push_str(&pat(r));
            }
        }
        3 => {
            s.push_str(&pat(r));
            s.push('|');
        }
        4 => {
            s.push_str("/ad[0-9]+\\.(js|gif)/");
        }
        5 => {
            if r.chance(1, 2) {
                s.push('*');
            }
        }
        _ => s.push_str(&pat(r)),
    }
    if r.chance(1, 12) {
        // a `$` and option-like text inside the pattern (the option section starts at the last `$`)
        s.push_str(r.ps(&["$size?domain=a.example|~b.example", "$x=1", "?a=$b,domain=~c.example"]));
    }
    let mut o: Vec<String> = vec![];
    if r.chance(1, 3) {
        o.push(
            r.ps(&["script", "image", "~script", "xhr", "document", "subdocument", "~image", "websocket", "~websocket", "font", "media", "object", "ping", "other", "stylesheet", "~xhr", "~font"])
                .to_string(),
        );
    }
    if r.chance(1, 5) {
        o.push(r.ps(&["script", "image", "document", "subdocument", "~websocket"]).to_string());
    }
    if r.chance(1, 5) {
        o.push(r.ps(&["third-party", "~third-party", "1p", "3p"]).to_string());
        if r.chance(1, 5) {
            // both parties spelt out (legal; the mask then carries neither party bit)
            o.push(r.ps(&["first-party", "~third-party", "1p", "3p", "third-party", "~1p"]).to_string());
        }
    }
    if r.chance(1, 4) {
        let mut d = String::from(r.ps(&["domain=", "domain=", "from="]));
        let k = 1 + r.below(3);
        for i in 0..k {
            if i > 0 {
                d.push('|');
            }
            if r.chance(1, 4) {
                d.push('~');
            }
            if r.chance(1, 8) {
                // regex-form entry (the network parser ignores these)
                d.push_str(r.ps(&["/beta[0-9]+\\.news\\.example/", "/^x/"]));
            } else {
                d.push_str(r.ps(HOSTS));
            }
        }
        o.push(d);
    }
    match r.below(14) {
        0 => o.push("important".into()),
        1 => o.push("csp=x".into()),
        2 => o.push("removeparam=a".into()),
        3 => o.push("redirect=noop.js".into()),
        4 => o.push("badfilter".into()),
        5 => o.push("generichide".into()),
        6 => o.push("match-case".into()),
        7 => o.push("tag=t".into()),
        _ => {}
    }
    if !o.is_empty() {
        if r.chance(1, 3) {
            r.shuffle(&mut o);
        }
        s.push('$');
        s.push_str(&o.join(","));
    }
    s
}

fn cos_rule(r: &mut Rng) -> String {
    let n = r.below(5);
    let locs: Vec<String> = (0..n)
        .map(|_| format!("{}{}", if r.chance(1, 4) { "~" } else { "" }, r.ps(&["a.com", "b.co.uk", "example.*", "bücher.de", "sub.a.com", "~x.*", "EXAMPLE.org"]).trim_start_matches('~')))
        .collect();
    format!(
        "{}{}{}",
        locs.join(","),
        r.ps(&["##", "##", "#@#"]),
        r.ps(&[".ad", "#ban", ".ad > div", "div[ad]", ".ü", ".ad:style(color: red)", "+js(foo)", ".x:has-text(y)", ".q\"uote", "a[href*=\"\\\\\"]", ".é > .b"])
    )
}

/// Validator for the regex subset accepted by Safari content blockers.
pub fn safari_ok(p: &str) -> Result<(), String> {
    if !p.is_ascii() {
        return Err("non-ascii".into());
    }
    let b = p.as_bytes();
    let mut i = 0;
    let mut depth = 0i32;
    let mut prev_atom = false;
    while i < b.len() {
        let c = b[i];
        match c {
            b'\\' => {
                if i + 1 >= b.len() {
                    return Err("dangling backslash".into());
                }
                let n = b[i + 1];
                if n.is_ascii_alphanumeric() {
                    return Err(format!("escape class \\{}", n as char));
                }
                i += 2;
                prev_atom = true;
                continue;
            }
            b'^' => {
                if i != 0 {
                    return Err("caret not at start".into());
                }
                prev_atom = false;
            }
            b'$' => {
                if i != b.len() - 1 {
                    return Err("dollar not at end".into());
                }
                prev_atom = false;
            }
            b'|' => return Err("alternation".into()),
            b'{' | b'}' => return Err("brace quantifier".into()),
            b'(' => {
                depth += 1;
                prev_atom = false;
            }
            b')' => {
                depth -= 1;
                if depth < 0 {
                    return Err("unbalanced )".into());
                }
                prev_atom = true;
            }
            b'[' => {
                let mut j = i + 1;
                if j < b.len() && b[j] == b'^' {
                    j += 1;
                }
                if j < b.len() && b[j] == b']' {
                    j += 1;
                }
                while j < b.len() && b[j] != b']' {
                    if b[j] == b'\\' {
                        j += 1;
                    }
                    j += 1;
                }
                if j >= b.len() {
                    return Err("unterminated class".into());
                }
                i = j;
                prev_atom = true;
            }
            b']' => return Err("stray ]".into()),
            b'*' | b'+' | b'?' => {
                if !prev_atom {
                    return Err("quantifier without atom".into());
                }
                prev_atom = false;
            }
            _ => prev_atom = true,
        }
        i += 1;
    }
    if depth != 0 {
        return Err("unbalanced (".into());
    }
    Ok(())
}

fn convert(lines: &[String]) -> Result<Result<(Vec<CbRule>, Vec<String>), ()>, String> {
    guarded(|| {
        let mut fs = FilterSet::new(true);
        fs.add_filters(lines, ParseOptions::default());
        fs.into_content_blocking()
    })
}

/// Rule sets that (also) come from a hosts-format source: conversion must stay total and ASCII.
fn hosts_sources(ctx: &mut Ctx) {
    use adblock::lists::FilterFormat;
    let sub = "hosts";
    let cases = ctx.n(20_000, 600_000);
    const ENTRIES: &[&str] = &[
        "127.0.0.1 ads.example.com", "0.0.0.0 Track.Example.COM", "www.sub.example.org", "::1 b\u{fc}cher.example", "0.0.0.0 M\u{dc}NCHEN.example",
        "0.0.0.0 a.b.co.uk # comment", ".dot.example.com", "# comment", "127.0.0.1 localhost", "0.0.0.0 \u{65e5}\u{672c}.example", "nodots", "0.0.0.0 xn--bcher-kva.example",
    ];
    for idx in 0..cases {
        if ctx.stop() {
            break;
        }
        if !ctx.begin_case(sub, idx) {
            continue;
        }
        let seed = ctx.seed;
        let mut r = Rng::for_case(seed, "c20.hosts", idx);
        let hosts: Vec<String> = (0..1 + r.below(5)).map(|_| r.ps(ENTRIES).to_string()).collect();
        let std: Vec<String> = (0..r.below(3)).map(|_| net_rule(&mut r)).collect();
        let hosts_first = r.chance(1, 2);
        ctx.eval();
        let out = guarded(|| {
            let mut fs = FilterSet::new(true);
            let hopts = ParseOptions { format: FilterFormat::Hosts, ..Default::default() };
            if hosts_first {
                fs.add_filters(&hosts, hopts);
                fs.add_filters(&std, ParseOptions::default());
            } else {
                fs.add_filters(&std, ParseOptions::default());
                fs.add_filters(&hosts, hopts);
            }
            fs.into_content_blocking()
        });
        match out {
            Err(sig) => ctx.violation(sub, idx, &format!("C20:{}", sig), json!({"hosts_lines": hosts, "standard_rules": std})),
            Ok(Err(())) => ctx.violation(sub, idx, "C20:debug-mode-set-rejected", json!({"hosts_lines": hosts, "standard_rules": std})),
            Ok(Ok((cb, used))) => {
                if !cb.is_empty() {
                    ctx.nontrivial(fnv(&format!("{:?}{:?}", hosts, std)));
                }
                ctx.obs("emitted_rules_from_hosts_sets", cb.len() as i64);
                let text = serde_json::to_string(&cb).unwrap_or_default();
                if !text.is_ascii() {
                    ctx.violation(sub, idx, "C20:non-ascii-rule", json!({"hosts_lines": hosts, "standard_rules": std}));
                }
                if used.len() > hosts.len() + std.len() {
                    ctx.violation(sub, idx, "C20:filters_used-longer-than-input", json!({"hosts_lines": hosts, "filters_used": used}));
                }
            }
        }
    }
}

pub fn run(ctx: &mut Ctx) {
    hosts_sources(ctx);
    let sub = "export";
    let cases = ctx.n(250_000, 16_000_000);
    for idx in 0..cases {
        if ctx.stop() {
            break;
        }
        if !ctx.begin_case(sub, idx) {
            continue;
        }
        let seed = ctx.seed;
        let mut r = Rng::for_case(seed, "c20", idx);
        let n = 1 + r.below(8);
        let rules: Vec<String> = (0..n).map(|_| if r.chance(1, 4) { cos_rule(&mut r) } else { net_rule(&mut r) }).collect();
        ctx.eval();
        let (cb, used) = match convert(&rules) {
            Err(sig) => {
                // minimise to a single rule if possible
                let single: Vec<&String> = rules.iter().filter(|l| convert(&[(*l).clone()]).is_err()).collect();
                ctx.violation(sub, idx, &format!("C20:{}", sig), json!({"rules": rules, "single_rules_that_panic": single}));
                continue;
            }
            Ok(Err(())) => {
                ctx.violation(sub, idx, "C20:debug-mode-set-rejected", json!({"rules": rules}));
                continue;
            }
            Ok(Ok(x)) => x,
        };
        ctx.obs("emitted_rules", cb.len() as i64);
        // filters_used vs individual conversion (network first, then cosmetic, each in input order)
        let mut exp_used: Vec<String> = vec![];
        let mut rejected = 0;
        let mut reported_without_output: Vec<String> = vec![];
        for kind in 0..2 {
            for line in &rules {
                let parsed = parse_filter(line, true, ParseOptions::default());
                let is_cos = match &parsed {
                    Ok(ParsedFilter::Cosmetic(_)) => true,
                    Ok(ParsedFilter::Network(_)) => false,
                    Err(_) => continue,
                };
                if (kind == 1) != is_cos {
                    continue;
                }
                match convert(&[line.clone()]) {
                    Ok(Ok((cb1, u))) if !u.is_empty() => {
                        // a rule reported as converted produced output of its own (a set with a
                        // converted network rule also ends with one constant trailer entry)
                        if cb1.len() < if is_cos { 1 } else { 2 } {
                            reported_without_output.push(line.clone());
                        }
                        exp_used.push(line.trim().to_string())
                    }
                    Ok(_) => rejected += 1,
                    Err(_) => {}
                }
            }
        }
        let mut sigs: Vec<(String, serde_json::Value)> = vec![];
        if !reported_without_output.is_empty() {
            sigs.push(("C20:rule-reported-as-converted-without-output".into(), json!({"rules": reported_without_output})));
        }
        if used != exp_used {
            sigs.push(("C20:filters_used-differs-from-rules-that-convert-alone".into(), json!({"filters_used": used, "rules_converting_alone": exp_used})));
        }
        let mut seen_ignore = false;
        for rule in &cb {
            let CbRule { action, trigger } = rule;
            let is_ignore = matches!(action.typ, CbType::IgnorePreviousRules);
            if is_ignore {
                seen_ignore = true;
            } else if seen_ignore {
                sigs.push(("C20:blocking-rule-after-ignore-previous-rules".into(), json!({"rule": serde_json::to_value(rule).unwrap_or(json!(null))})));
            }
            if trigger.if_domain.is_some() && trigger.unless_domain.is_some() {
                sigs.push(("C20:if-domain-and-unless-domain-together".into(), json!({"rule": serde_json::to_value(rule).unwrap_or(json!(null))})));
            }
            let js = serde_json::to_string(rule).unwrap_or_default();
            if !js.is_ascii() {
                sigs.push(("C20:non-ascii-rule".into(), json!({"rule": js})));
            }
            if let Err(e) = safari_ok(&trigger.url_filter) {
                sigs.push((format!("C20:url-filter-outside-safari-subset:{}", e.split(' ').next().unwrap_or("")), json!({"url_filter": trigger.url_filter, "why": e})));
            }
            if regex::Regex::new(&trigger.url_filter).is_err() {
                sigs.push(("C20:url-filter-does-not-compile".into(), json!({"url_filter": trigger.url_filter})));
            }
        }
        // plain-pattern implication
        let mut implied = 0;
        for line in &rules {
            if line.contains('*') || line.contains('^') || line.contains('$') || line.contains('#') || line.starts_with("@@") || line.is_empty() {
                continue;
            }
            if line.starts_with('/') && line.ends_with('/') && line.len() > 1 {
                continue;
            }
            let c = match convert(&[line.clone()]) {
                Ok(Ok((c, _))) => c,
                _ => continue,
            };
            let first = match c.first() {
                Some(f) => f,
                None => continue,
            };
            let re = match regex::RegexBuilder::new(&first.trigger.url_filter)
                .case_insensitive(first.trigger.url_filter_is_case_sensitive != Some(true))
                .build()
            {
                Ok(re) => re,
                Err(_) => continue,
            };
            let e = Engine::from_rules_debug([line], Default::default());
            let body = line.trim_start_matches('|').trim_end_matches('|');
            for u in [
                format!("https://ads.net/{}", body),
                format!("http://sub.ads.net/x{}y?z", body),
                format!("https://{}", body),
                format!("https://a.com/{}/", body.to_uppercase()),
                format!("http://{}/", body),
            ] {
                let rq = match Request::new(&u, "https://zz.org/", "script") {
                    Ok(rq) => rq,
                    Err(_) => continue,
                };
                if e.check_network_request(&rq).matched {
                    implied += 1;
                    if !re.is_match(&rq.url) {
                        sigs.push(("C20:emitted-pattern-misses-url-the-rule-matches".into(), json!({"rule": line, "url": rq.url, "url_filter": first.trigger.url_filter})));
                    }
                }
            }
        }
        ctx.obs("implication_checks", implied);
        if !used.is_empty() && rejected > 0 {
            ctx.nontrivial(fnv(&format!("{:?}", rules)));
            ctx.sample(|| json!({"rules": rules, "filters_used": used, "emitted": cb.iter().take(4).map(|c| serde_json::to_value(c).unwrap_or(json!(null))).collect::<Vec<_>>()}));
        }
        for (sig, extra) in sigs {
            let mut d = json!({"rules": rules});
            d.as_object_mut().unwrap().insert("witness".into(), extra);
            ctx.violation(sub, idx, &sig, d);
        }
    }
}
