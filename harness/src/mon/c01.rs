//! C01 — engine verdict == rule-by-rule evaluation of the loaded list (O-scan), plus structural
//! invariants of the token index observed through the H4 walker.

use crate::gen::{self, gen_list, gen_request, standard_resources, Profile, TAGS};
use crate::mon::common::{ask, build_engine, diff, minimize_rules, verdict_json, Answer};
use crate::oracle::resources::ResModel;
use crate::oracle::scan::{Cat, Scan};
use crate::report::{guarded, Ctx};
use crate::rng::{fnv, Rng};
use adblock::lists::{FilterFormat, ParseOptions};
use adblock::request::Request;
use adblock::Engine;
use serde_json::json;
use std::collections::{BTreeMap, BTreeSet, HashSet};
use std::sync::atomic::Ordering;

pub fn run(ctx: &mut Ctx) {
    random_lists(ctx);
    hosts_lists(ctx);
    if !ctx.quick() || ctx.extra.contains_key("corpus") {
        corpus(ctx);
    }
}

fn pick_tags(r: &mut Rng) -> Vec<&'static str> {
    TAGS.iter().filter(|_| r.chance(1, 2)).cloned().collect()
}

/// Compare one request. Returns the differing fields (empty = agreement).
fn compare(
    e: &Engine,
    scan: &mut Scan,
    res: &ResModel,
    tags: &HashSet<String>,
    q: &gen::Req,
) -> Option<(Vec<&'static str>, Answer, crate::oracle::scan::Verdict)> {
    let rq = Request::new(&q.url, &q.source, q.rtype).ok()?;
    let a = ask(e, &rq);
    let v = scan.verdict(&rq, &q.url, tags, res);
    Some((diff(&a, &v), a, v))
}

fn random_lists(ctx: &mut Ctx) {
    let sub = "rand";
    let cases = ctx.n(40_000, 3_000_000);
    let resdefs = standard_resources();
    let res = ResModel { defs: &resdefs };
    for idx in 0..cases {
        if ctx.stop() {
            break;
        }
        if !ctx.begin_case(sub, idx) {
            continue;
        }
        let seed = ctx.seed;
        let outcome = guarded(|| {
            let mut r = Rng::for_case(seed, "c01.rand", idx);
            let max = if r.chance(1, 4) { 60 } else { 12 };
            let rules = gen_list(&mut r, &Profile::ALL, max);
            let optimize = r.chance(1, 3);
            let debug = r.chance(1, 2);
            let tags = pick_tags(&mut r);
            let tagset: HashSet<String> = tags.iter().map(|s| s.to_string()).collect();
            let mut e = build_engine(&rules, ParseOptions::default(), debug, optimize);
            e.use_tags(&tags);
            let mut scan = Scan::new(&rules, ParseOptions::default());
            let mut out: Vec<CaseEvent> = vec![];
            // the same list added one rule at a time to a live Blocker (not possible with
            // $badfilter rules, which add_filter refuses)
            let live = if rules.iter().any(|l| l.contains("badfilter")) {
                None
            } else {
                let mut b = adblock::blocker::Blocker::new(vec![], &adblock::blocker::BlockerOptions { enable_optimizations: false });
                for line in &rules {
                    let (mut nf, _) = adblock::lists::parse_filters([line], debug, ParseOptions::default());
                    if let Some(f) = nf.pop() {
                        let _ = b.add_filter(f);
                    }
                }
                b.use_tags(&tags);
                Some((b, adblock::resources::ResourceStorage::from_resources(resdefs.iter().map(|d| d.to_resource()))))
            };
            if !optimize {
                for msg in structure_violations(&e, &scan, &tagset) {
                    out.push(CaseEvent::Structure(msg, rules.clone(), tags.clone()));
                }
            }
            for _ in 0..12 {
                let q = gen_request(&mut r, &rules);
                if let Some((d, a, v)) = compare(&e, &mut scan, &res, &tagset, &q) {
                    if let (Some((b, storage)), Ok(rq)) = (&live, Request::new(&q.url, &q.source, q.rtype)) {
                        let a2 = crate::mon::c05::blocker_answer(b, storage, &rq);
                        let d2 = diff(&a2, &v);
                        if !d2.is_empty() && d.is_empty() {
                            out.push(CaseEvent::Mismatch {
                                fields: format!("incremental:{}", d2.join("+")),
                                detail: json!({"rules_added_one_at_a_time": rules, "tags": tags, "url": q.url, "source": q.source, "type": q.rtype,
                                    "blocker": a2.to_json(), "oracle": verdict_json(&v)}),
                            });
                        }
                    }
                    // the multi-engine entry point under the other three flag combinations
                    if let Ok(rq) = Request::new(&q.url, &q.source, q.rtype) {
                        for (prev, force) in [(true, false), (true, true), (false, true)] {
                            let s = e.check_network_request_subset(&rq, prev, force);
                            let want = v.with_flags(prev, force, rq.is_supported);
                            if (s.matched, s.important, s.exception.is_some()) != want && d.is_empty() {
                                out.push(CaseEvent::Mismatch {
                                    fields: "subset-entry-point".into(),
                                    detail: json!({"rules": rules, "tags": tags, "url": q.url, "source": q.source, "type": q.rtype, "optimize": optimize,
                                        "previously_matched_rule": prev, "force_check_exceptions": force,
                                        "engine": {"matched": s.matched, "important": s.important, "exception": s.exception},
                                        "reference": {"matched": want.0, "important": want.1, "exception": want.2}}),
                                });
                            }
                        }
                    }
                    let nt = v.hits > 0 || v.csp.is_some();
                    let h = fnv(&format!("{:?}|{:?}|{}|{}|{}", rules, tags, q.url, q.source, q.rtype));
                    if d.is_empty() {
                        out.push(CaseEvent::Ok {
                            nt,
                            h,
                            sample: json!({"rules": rules, "tags": tags, "url": q.url, "source": q.source, "type": q.rtype,
                                "optimize": optimize, "engine": a.to_json(), "oracle_hits": v.hits}),
                            cats: v.hit_cats,
                        });
                    } else {
                        // minimise
                        let min = minimize_rules(&rules, |cand| {
                            let mut e2 = build_engine(cand, ParseOptions::default(), debug, optimize);
                            e2.use_tags(&tags);
                            let mut s2 = Scan::new(cand, ParseOptions::default());
                            matches!(compare(&e2, &mut s2, &res, &tagset, &q), Some((d2, _, _)) if !d2.is_empty())
                        });
                        out.push(CaseEvent::Mismatch {
                            fields: d.join("+"),
                            detail: json!({"rules": rules, "minimised_rules": min, "tags": tags, "url": q.url, "source": q.source,
                                "type": q.rtype, "optimize": optimize, "debug": debug, "engine": a.to_json(), "oracle": verdict_json(&v)}),
                        });
                    }
                }
            }
            out
        });
        absorb(ctx, sub, idx, outcome);
    }
    ctx.obs("bucket_probes", adblock::verif::BUCKET_PROBES.load(Ordering::Relaxed) as i64);
    ctx.obs("bucket_hits", adblock::verif::BUCKET_HITS.load(Ordering::Relaxed) as i64);
    ctx.obs("rules_tested_upper", adblock::verif::RULES_TESTED.load(Ordering::Relaxed) as i64);
}

enum CaseEvent {
    Ok {
        nt: bool,
        h: u64,
        sample: serde_json::Value,
        cats: u32,
    },
    Mismatch {
        fields: String,
        detail: serde_json::Value,
    },
    Structure(String, Vec<String>, Vec<&'static str>),
}

fn absorb(ctx: &mut Ctx, sub: &str, idx: u64, outcome: Result<Vec<CaseEvent>, String>) {
    match outcome {
        Err(sig) => ctx.violation(sub, idx, &format!("C01:{}", sig), json!({"note": "panic while building or querying"})),
        Ok(events) => {
            for ev in events {
                match ev {
                    CaseEvent::Ok { nt, h, sample, cats } => {
                        ctx.eval();
                        if nt {
                            ctx.nontrivial(h);
                            ctx.sample(|| sample);
                            for c in 0..8 {
                                if cats & (1 << c) != 0 {
                                    ctx.obs(&format!("hit_cat_{}", c), 1);
                                }
                            }
                        }
                    }
                    CaseEvent::Mismatch { fields, detail } => {
                        ctx.eval();
                        ctx.violation(sub, idx, &format!("C01:mismatch:{}", fields), detail);
                    }
                    CaseEvent::Structure(msg, rules, tags) => {
                        let sig = msg.split(':').next().unwrap_or("structure").to_string();
                        ctx.violation(sub, idx, &format!("C01:structure:{}", sig), json!({"what": msg, "rules": rules, "tags": tags}));
                    }
                }
            }
        }
    }
}

/// H4 invariants at a quiescent point (after construction, optimisation off):
/// every rule stored under token K != 0 has K among its own tokens; buckets are strictly sorted
/// by id; the per-category id sets equal the expected partition of the list.
pub fn structure_violations(e: &Engine, scan: &Scan, tags: &HashSet<String>) -> Vec<String> {
    let mut out = vec![];
    let mut buckets: BTreeMap<(&'static str, u64), Vec<u64>> = BTreeMap::new();
    let mut per_list: BTreeMap<&'static str, BTreeSet<u64>> = BTreeMap::new();
    e.verif_blocker().verif_walk(&mut |list, token, f| {
        per_list.entry(list).or_default().insert(f.id);
        if list == "tagged_filters_all" {
            return;
        }
        buckets.entry((list, token)).or_default().push(f.id);
        if token != 0 {
            let own: Vec<u64> = f.get_tokens().into_iter().flatten().collect();
            if !own.contains(&token) {
                out.push(format!(
                    "foreign-bucket: rule {:?} stored in list {} under token {:x} which is not one of its tokens",
                    f.raw_line, list, token
                ));
            }
        }
    });
    for ((list, token), ids) in &buckets {
        if ids.windows(2).any(|w| w[0] >= w[1]) {
            out.push(format!("unsorted-bucket: list {} token {:x} ids {:?}", list, token, ids));
        }
    }
    let mut expected: BTreeMap<&'static str, BTreeSet<u64>> = BTreeMap::new();
    for r in &scan.rules {
        let list = match r.cat {
            Cat::Csp => Some("csp"),
            Cat::Removeparam => Some("removeparam"),
            Cat::GenericHide => Some("generic_hide"),
            Cat::Exception => Some("exceptions"),
            Cat::Important => Some("importants"),
            Cat::Tagged => Some("tagged_filters_all"),
            Cat::Normal => Some("filters"),
            Cat::RedirectOnly => None,
        };
        if let Some(l) = list {
            expected.entry(l).or_default().insert(r.f.id);
        }
        if r.cat == Cat::Tagged && r.tag.as_ref().map(|t| tags.contains(t)).unwrap_or(false) {
            expected.entry("filters_tagged").or_default().insert(r.f.id);
        }
        if r.in_redirects {
            expected.entry("redirects").or_default().insert(r.f.id);
        }
    }
    for list in [
        "csp",
        "removeparam",
        "generic_hide",
        "exceptions",
        "importants",
        "tagged_filters_all",
        "filters",
        "filters_tagged",
        "redirects",
    ] {
        let got = per_list.get(list).cloned().unwrap_or_default();
        let want = expected.get(list).cloned().unwrap_or_default();
        if got != want {
            let lost: Vec<String> = scan
                .rules
                .iter()
                .filter(|r| want.contains(&r.f.id) && !got.contains(&r.f.id))
                .map(|r| r.line.clone())
                .collect();
            out.push(format!(
                "partition: list {} holds {} rules, expected {}; missing {:?}; {} unexpected",
                list,
                got.len(),
                want.len(),
                lost,
                got.difference(&want).count()
            ));
        }
    }
    out
}

const HOST_LINES: &[&str] = &[
    "127.0.0.1 ads.net",
    "0.0.0.0 www.example.org",
    "track.io",
    "127.0.0.1\tsub.ads.net # comment",
    "# comment only",
    "! bang comment",
    "127.0.0.1 localhost",
    "0.0.0.0 B.CO.UK",
    "1.2.3.4 a.com extra",
    "::1 xads.net",
    "127.0.0.1 foo.bar.example.org",
    "0.0.0.0 .track.io",
    "nodots",
    "0.0.0.0 ads.track.io.",
];

fn hosts_lists(ctx: &mut Ctx) {
    let sub = "hosts";
    let cases = ctx.n(2_000, 200_000);
    let resdefs = standard_resources();
    let res = ResModel { defs: &resdefs };
    let opts = ParseOptions {
        format: FilterFormat::Hosts,
        ..ParseOptions::default()
    };
    for idx in 0..cases {
        if ctx.stop() {
            break;
        }
        if !ctx.begin_case(sub, idx) {
            continue;
        }
        let seed = ctx.seed;
        let outcome = guarded(|| {
            let mut r = Rng::for_case(seed, "c01.hosts", idx);
            let n = 1 + r.below(8);
            let rules: Vec<String> = (0..n).map(|_| r.ps(HOST_LINES).to_string()).collect();
            let optimize = r.chance(1, 2);
            let e = build_engine(&rules, opts, true, optimize);
            let mut scan = Scan::new(&rules, opts);
            let tagset = HashSet::new();
            let mut out = vec![];
            // hosts rules as `||host^` stand-ins for request derivation
            let derived: Vec<String> = scan.rules.iter().map(|r| r.f.raw_line.as_ref().map(|s| (**s).clone()).unwrap_or_default()).collect();
            for _ in 0..10 {
                let q = gen_request(&mut r, &derived);
                if let Some((d, a, v)) = compare(&e, &mut scan, &res, &tagset, &q) {
                    let nt = v.hits > 0;
                    let h = fnv(&format!("H{:?}|{}|{}|{}", rules, q.url, q.source, q.rtype));
                    if d.is_empty() {
                        out.push(CaseEvent::Ok {
                            nt,
                            h,
                            sample: json!({"hosts_lines": rules, "url": q.url, "source": q.source, "type": q.rtype, "engine": a.to_json()}),
                            cats: v.hit_cats,
                        });
                    } else {
                        out.push(CaseEvent::Mismatch {
                            fields: format!("hosts:{}", d.join("+")),
                            detail: json!({"hosts_lines": rules, "url": q.url, "source": q.source, "type": q.rtype,
                                "engine": a.to_json(), "oracle": verdict_json(&v)}),
                        });
                    }
                }
            }
            out
        });
        absorb(ctx, sub, idx, outcome);
    }
}

/// Thorough: one engine from the real lists shipped in /repo/data versus O-scan over the recorded
/// requests (plus glued variants). Linear scan cost is why this is sharded by request.
fn corpus(ctx: &mut Ctx) {
    let sub = "corpus";
    let mut rules: Vec<String> = vec![];
    for p in [
        "/repo/data/easylist.to/easylist/easylist.txt",
        "/repo/data/easylist.to/easylist/easyprivacy.txt",
        "/repo/data/uBlockOrigin/filters.txt",
        "/repo/data/uBlockOrigin/unbreak.txt",
        "/repo/data/brave/brave-unbreak.txt",
    ] {
        match std::fs::read_to_string(p) {
            Ok(s) => rules.extend(s.lines().map(|l| l.to_string())),
            Err(_) => ctx.note(format!("corpus file missing: {}", p)),
        }
    }
    let reqs: Vec<(String, String, String)> = match std::fs::read_to_string("/repo/data/matching-test-requests.json") {
        Ok(s) => match serde_json::from_str::<serde_json::Value>(&s) {
            Ok(serde_json::Value::Array(a)) => a
                .iter()
                .filter_map(|o| {
                    Some((
                        o.get("url")?.as_str()?.to_string(),
                        o.get("sourceUrl")?.as_str()?.to_string(),
                        o.get("type")?.as_str()?.to_string(),
                    ))
                })
                .collect(),
            _ => vec![],
        },
        Err(_) => vec![],
    };
    if rules.is_empty() || reqs.is_empty() {
        ctx.note("corpus unavailable; skipped".into());
        return;
    }
    let limit = ctx.n(600, reqs.len() as u64) as usize;
    let resdefs = standard_resources();
    let res = ResModel { defs: &resdefs };
    let seed = ctx.seed;
    let built = guarded(|| {
        let e = build_engine(&rules, ParseOptions::default(), false, true);
        let scan = Scan::new(&rules, ParseOptions::default());
        (e, scan)
    });
    let (e, mut scan) = match built {
        Ok(x) => x,
        Err(sig) => {
            ctx.violation(sub, 0, &format!("C01:{}", sig), json!({"note": "panic while building corpus engine"}));
            return;
        }
    };
    ctx.obs("corpus_rules_live", scan.rules.len() as i64);
    let tagset = HashSet::new();
    for (i, (url, src, ty)) in reqs.iter().enumerate().take(limit) {
        let idx = i as u64;
        if ctx.stop() {
            break;
        }
        if !ctx.begin_case(sub, idx) {
            continue;
        }
        let mut r = Rng::for_case(seed, "c01.corpus", idx);
        // the recorded request and one glued variant
        let mut variants = vec![url.clone()];
        if let Some(p) = url.rfind('/') {
            let mut g = url.clone();
            g.insert_str(p + 1, r.ps(&["lo", "x", "q9"]));
            variants.push(g);
        }
        for u in variants {
            let q = gen::Req {
                url: u,
                source: src.clone(),
                rtype: leak_type(ty),
            };
            let outcome = guarded(|| compare(&e, &mut scan, &res, &tagset, &q));
            match outcome {
                Err(sig) => ctx.violation(sub, idx, &format!("C01:{}", sig), json!({"url": q.url})),
                Ok(None) => {}
                Ok(Some((d, a, v))) => {
                    ctx.eval();
                    ctx.obs("corpus_evals", 1);
                    if v.hits > 0 {
                        ctx.nontrivial(fnv(&format!("corpus|{}|{}|{}", q.url, q.source, q.rtype)));
                        ctx.obs("corpus_nontrivial", 1);
                    }
                    if !d.is_empty() {
                        let hit_lines: Vec<String> = {
                            let rq = Request::new(&q.url, &q.source, q.rtype).unwrap();
                            scan.hits(&rq).iter().map(|&i| scan.rules[i].line.clone()).collect()
                        };
                        ctx.violation(
                            sub,
                            idx,
                            &format!("C01:mismatch:corpus:{}", d.join("+")),
                            json!({"url": q.url, "source": q.source, "type": q.rtype, "engine": a.to_json(),
                                "oracle": verdict_json(&v), "oracle_hit_rules": hit_lines}),
                        );
                    }
                }
            }
        }
    }
}

fn leak_type(t: &str) -> &'static str {
    for k in gen::TYPES {
        if *k == t {
            return k;
        }
    }
    match t {
        "main_frame" => "main_frame",
        "sub_frame" => "sub_frame",
        "xmlhttprequest" => "xmlhttprequest",
        "imageset" => "imageset",
        "beacon" => "beacon",
        "csp_report" => "csp_report",
        "object_subrequest" => "object_subrequest",
        _ => "other",
    }
}
