//! Helpers shared by the network monitors: asking the real engine, comparing with O-scan.

use crate::gen::{standard_resources, ResDef};
use crate::oracle::scan::{split_csp, Verdict};
use adblock::lists::ParseOptions;
use adblock::request::Request;
use adblock::Engine;
use serde_json::{json, Value};
use std::collections::BTreeSet;

#[derive(Clone, Debug, PartialEq, Eq)]
pub struct Answer {
    pub matched: bool,
    pub important: bool,
    pub exception: bool,
    pub redirect: Option<String>,
    pub rewritten: Option<String>,
    pub csp: Option<BTreeSet<String>>,
    pub filter: Option<String>,
    pub exception_text: Option<String>,
}

impl Answer {
    /// Equality up to the debug text naming the matched rule.
    pub fn same_verdict(&self, o: &Answer) -> bool {
        self.matched == o.matched
            && self.important == o.important
            && self.exception == o.exception
            && self.redirect == o.redirect
            && self.rewritten == o.rewritten
            && self.csp == o.csp
    }

    pub fn is_default(&self) -> bool {
        !self.matched
            && !self.important
            && !self.exception
            && self.redirect.is_none()
            && self.rewritten.is_none()
            && self.csp.is_none()
    }

    pub fn to_json(&self) -> Value {
        json!({
            "matched": self.matched, "important": self.important, "exception": self.exception,
            "redirect": self.redirect, "rewritten_url": self.rewritten,
            "csp": self.csp, "filter": self.filter, "exception_text": self.exception_text,
        })
    }

    pub fn digest(&self) -> String {
        format!(
            "{}{}{}|{:?}|{:?}|{:?}",
            self.matched as u8,
            self.important as u8,
            self.exception as u8,
            self.redirect,
            self.rewritten,
            self.csp
        )
    }
}

pub fn ask(e: &Engine, rq: &Request) -> Answer {
    let b = e.check_network_request(rq);
    let csp = split_csp(&e.get_csp_directives(rq));
    Answer {
        matched: b.matched,
        important: b.important,
        exception: b.exception.is_some(),
        redirect: b.redirect,
        rewritten: b.rewritten_url,
        csp,
        filter: b.filter,
        exception_text: b.exception,
    }
}

/// Fields in which the engine's answer disagrees with the oracle's verdict.
pub fn diff(a: &Answer, v: &Verdict) -> Vec<&'static str> {
    let mut d = vec![];
    if a.matched != v.matched {
        d.push("matched");
    }
    if a.important != v.important {
        d.push("important");
    }
    if a.exception != v.exception {
        d.push("exception");
    }
    if !v.redirect_ok.contains(&a.redirect) {
        d.push("redirect");
    }
    if a.rewritten != v.rewritten {
        d.push("rewritten_url");
    }
    if a.csp != v.csp {
        d.push("csp");
    }
    d
}

pub fn verdict_json(v: &Verdict) -> Value {
    json!({
        "matched": v.matched, "important": v.important, "exception": v.exception,
        "redirect_ok": v.redirect_ok, "rewritten_url": v.rewritten, "csp": v.csp, "hits": v.hits,
    })
}

pub fn build_engine(rules: &[String], opts: ParseOptions, debug: bool, optimize: bool) -> Engine {
    let mut e = Engine::from_rules_parametrised(rules, opts, debug, optimize);
    e.use_resources(standard_resources().iter().map(|r| r.to_resource()));
    e
}

pub fn build_engine_with(
    rules: &[String],
    opts: ParseOptions,
    debug: bool,
    optimize: bool,
    res: &[ResDef],
) -> Engine {
    let mut e = Engine::from_rules_parametrised(rules, opts, debug, optimize);
    e.use_resources(res.iter().map(|r| r.to_resource()));
    e
}

/// Two answers that differ only in `redirect` are still equal for the differential monitors if both
/// values belong to the resources of the equal-highest-priority matching redirect rules: which of
/// several equal-priority redirects wins is left open by the statement (C13's oracle is set-valued)
/// and legitimately depends on bucket order.
pub fn differs_only_by_redirect_tie(
    got: &Answer,
    want: &Answer,
    rules: &[String],
    tags: &std::collections::HashSet<String>,
    rq: &Request,
    url: &str,
    resdefs: &[ResDef],
) -> bool {
    if got.matched != want.matched || got.important != want.important || got.exception != want.exception || got.rewritten != want.rewritten || got.csp != want.csp {
        return false;
    }
    let mut scan = crate::oracle::scan::Scan::new(rules, ParseOptions::default());
    let v = scan.verdict(rq, url, tags, &crate::oracle::resources::ResModel { defs: resdefs });
    v.redirect_ok.len() > 1 && v.redirect_ok.contains(&got.redirect) && v.redirect_ok.contains(&want.redirect)
}

/// Greedy delta-debugging over rule lines: drop rules while `still_fails` keeps holding.
pub fn minimize_rules(rules: &[String], mut still_fails: impl FnMut(&[String]) -> bool) -> Vec<String> {
    let mut cur: Vec<String> = rules.to_vec();
    let mut budget = 200;
    let mut i = 0;
    while i < cur.len() && budget > 0 {
        let mut cand = cur.clone();
        cand.remove(i);
        budget -= 1;
        if !cand.is_empty() && still_fails(&cand) {
            cur = cand;
        } else {
            i += 1;
        }
    }
    cur
}
