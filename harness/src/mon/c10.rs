//! C10 — loading corrupt or hostile serialized data fails cleanly and atomically (fault enumeration).
//!
//! For each small valid buffer: ALL prefixes, ALL single-bit flips, marker substitutions at every
//! structural offset (found by an independent msgpack walker), random multi-byte corruptions, and
//! arbitrary strings incl. every header variant. Per fault, on an engine with known prior state:
//!  1. `deserialize` under catch_unwind with the allocation monitor armed (bounded peak / request)
//!  2. Err  => state unchanged: serialized bytes and the query battery equal the pre-call values
//!  3. Ok   => battery + serialize_raw run without panicking

use crate::alloc;
use crate::gen::{self, gen_request, Profile};
use crate::gen_cos::{gen_cos_list, PAGES};
use crate::mon::c08::{build, cos, scriptlet_resources};
use crate::mon::common::ask;
use crate::report::{guarded, Ctx};
use crate::rng::{fnv_bytes, Rng};
use adblock::request::Request;
use adblock::Engine;
use serde_json::json;

const HEADER: usize = 5;

/// Independent structural walk of a msgpack buffer: offsets of every value's marker byte.
pub fn msgpack_markers(b: &[u8]) -> Vec<usize> {
    fn be(b: &[u8], at: usize, n: usize) -> Option<usize> {
        let s = b.get(at..at + n)?;
        Some(s.iter().fold(0usize, |a, x| (a << 8) | *x as usize))
    }
    // returns the offset just past the value starting at `at`
    fn walk(b: &[u8], at: usize, out: &mut Vec<usize>, depth: usize) -> Option<usize> {
        if depth > 64 {
            return None;
        }
        let m = *b.get(at)?;
        out.push(at);
        let items = |b: &[u8], mut at: usize, n: usize, out: &mut Vec<usize>| -> Option<usize> {
            for _ in 0..n {
                at = walk(b, at, out, depth + 1)?;
            }
            Some(at)
        };
        match m {
            0x00..=0x7f | 0xe0..=0xff | 0xc0 | 0xc2 | 0xc3 => Some(at + 1),
            0x80..=0x8f => items(b, at + 1, 2 * (m & 0x0f) as usize, out),
            0x90..=0x9f => items(b, at + 1, (m & 0x0f) as usize, out),
            0xa0..=0xbf => Some(at + 1 + (m & 0x1f) as usize),
            0xc4 | 0xd9 => Some(at + 2 + be(b, at + 1, 1)?),
            0xc5 | 0xda => Some(at + 3 + be(b, at + 1, 2)?),
            0xc6 | 0xdb => Some(at + 5 + be(b, at + 1, 4)?),
            0xca | 0xce | 0xd2 => Some(at + 5),
            0xcb | 0xcf | 0xd3 => Some(at + 9),
            0xcc | 0xd0 => Some(at + 2),
            0xcd | 0xd1 => Some(at + 3),
            0xdc => items(b, at + 3, be(b, at + 1, 2)?, out),
            0xdd => items(b, at + 5, be(b, at + 1, 4)?, out),
            0xde => items(b, at + 3, 2 * be(b, at + 1, 2)?, out),
            0xdf => items(b, at + 5, 2 * be(b, at + 1, 4)?, out),
            0xd4 => Some(at + 3),
            0xd5 => Some(at + 4),
            0xd6 => Some(at + 6),
            0xd7 => Some(at + 10),
            0xd8 => Some(at + 18),
            0xc7 => Some(at + 3 + be(b, at + 1, 1)?),
            0xc8 => Some(at + 4 + be(b, at + 1, 2)?),
            0xc9 => Some(at + 6 + be(b, at + 1, 4)?),
            0xc1 => None,
        }
    }
    let mut out = vec![];
    if b.len() > HEADER {
        let _ = walk(b, HEADER, &mut out, 0);
    }
    out
}

/// Byte ranges of every str payload (start, len), derived from the marker walk.
pub fn msgpack_strings(b: &[u8]) -> Vec<(usize, usize)> {
    let mut out = vec![];
    for at in msgpack_markers(b) {
        let m = b[at];
        let (start, len) = match m {
            0xa0..=0xbf => (at + 1, (m & 0x1f) as usize),
            0xd9 => (at + 2, *b.get(at + 1).unwrap_or(&0) as usize),
            0xda => (at + 3, ((*b.get(at + 1).unwrap_or(&0) as usize) << 8) | *b.get(at + 2).unwrap_or(&0) as usize),
            _ => continue,
        };
        if start + len <= b.len() && len > 0 {
            out.push((start, len));
        }
    }
    out
}

const SUBST: &[u8] = &[0xc0, 0x90, 0x9f, 0x80, 0x8f, 0xdc, 0xdd, 0xde, 0xdf, 0xd9, 0xda, 0xdb, 0xc6, 0xc7, 0xff, 0xc1, 0xc3, 0xcf];

struct Subject {
    lines: Vec<String>,
    buf: Vec<u8>,
    reqs: Vec<gen::Req>,
}

fn small_list(r: &mut Rng) -> Vec<String> {
    let mut lines = vec![
        "||ads.net^".to_string(),
        "||track.io/pixel$third-party,image".to_string(),
        "/banner/*/ad^$script,domain=a.com|~b.co.uk".to_string(),
        "@@||ads.net/ok$xhr".to_string(),
        "|https://x.b.co.uk/track|".to_string(),
        "/advert\\d+/$match-case".to_string(),
        "||a.com^$csp=script-src 'none'".to_string(),
        "||a.com/js$redirect=noop.js:5".to_string(),
        "/pixel.gif$important,tag=t1".to_string(),
        "@@||example.org^$generichide".to_string(),
        "ads.net##.ad".to_string(),
        "##.generic".to_string(),
        "##.generic > div".to_string(),
        "###id1".to_string(),
        "example.com#@#.generic".to_string(),
        "example.*##+js(s1, a)".to_string(),
        "b.co.uk##.x:style(color: red)".to_string(),
        "##div[ad]".to_string(),
    ];
    r.shuffle(&mut lines);
    lines.truncate(8 + r.below(8));
    // plain tagged rules (the category that is re-indexed whenever tags change), one of them
    // without any indexable token
    lines.push("adv$tag=t1".to_string());
    lines.push("adw$tag=t1".to_string());
    if r.chance(1, 2) {
        lines.push("/pixel-t.gif$tag=t1,image".to_string());
    }
    for _ in 0..r.below(4) {
        lines.push(gen::gen_rule(r, &Profile::ALL));
    }
    for c in gen_cos_list(r, 3, true) {
        lines.push(c.line);
    }
    lines
}

fn subject(seed: u64, k: u64) -> Subject {
    let mut r = Rng::for_case(seed, "c10.subject", k);
    let lines = small_list(&mut r);
    let debug = k % 3 == 1;
    let optimize = k % 2 == 0;
    let mut e = build(&lines, debug, optimize, 0);
    if k % 4 == 3 {
        e.use_tags(&["t1"]);
    }
    let buf = e.serialize_raw().expect("serialize");
    let mut reqs: Vec<gen::Req> = (0..6).map(|_| gen_request(&mut r, &lines)).collect();
    reqs.push(gen::Req {
        url: "https://ads.net/banner/x/ad?pixel.gif".into(),
        source: "https://a.com/".into(),
        rtype: "script",
    });
    // documents (the csp query has its own lookup path)
    reqs.push(gen::Req { url: "https://a.com/".into(), source: "https://a.com/".into(), rtype: "document" });
    reqs.push(gen::Req { url: "https://a.com/js/frame.html".into(), source: "https://other.org/".into(), rtype: "subdocument" });
    Subject { lines, buf, reqs }
}

struct Prior {
    buf: Vec<u8>,
    battery: String,
}

const PRIOR_LINES: &[&str] = &[
    "||prior.example^",
    "/prior-path/$script,tag=p1",
    "@@||prior.example/ok",
    "prior.example##.prior",
    "##.prior-generic",
    "/prior*regex^$image",
];

fn battery(e: &Engine, reqs: &[gen::Req]) -> String {
    let mut s = String::new();
    for q in reqs {
        if let Ok(rq) = Request::new(&q.url, &q.source, q.rtype) {
            s.push_str(&ask(e, &rq).digest());
            s.push('\n');
        }
    }
    for (host, _) in PAGES.iter().take(4) {
        s.push_str(&format!("{:?}\n", cos(e, &format!("https://{}/", host))));
    }
    s.push_str(&format!("{:?}\n", cos(e, "https://prior.example/")));
    for t in ["t1", "p1", "zz"] {
        s.push_str(&format!("{}", e.tag_exists(t) as u8));
    }
    s
}

fn prior_engine() -> Engine {
    let lines: Vec<String> = PRIOR_LINES.iter().map(|s| s.to_string()).collect();
    let mut e = build(&lines, true, true, 0);
    // t1 is a tag of the subject lists: it is already enabled when a hostile buffer is loaded
    e.use_tags(&["p1", "t1"]);
    e
}

fn prior_reqs() -> Vec<gen::Req> {
    vec![
        gen::Req { url: "https://prior.example/prior-path/x".into(), source: "https://other.org/".into(), rtype: "script" },
        gen::Req { url: "https://prior.example/ok".into(), source: "".into(), rtype: "image" },
        gen::Req { url: "https://x.org/priorzzregex/".into(), source: "https://x.org/".into(), rtype: "image" },
    ]
}

#[derive(Default)]
struct Tally {
    ok: u64,
    err: u64,
}

/// Apply one hostile buffer. Returns (entered_decoder, outcome tag, violations).
fn apply(e: &mut Engine, prior: &Prior, preqs: &[gen::Req], subject_reqs: &[gen::Req], data: &[u8], tally: &mut Tally) -> Vec<(String, serde_json::Value)> {
    let mut viol = vec![];
    let limit = 16 * 1024 * 1024 + 256 * data.len();
    let base = alloc::arm(limit);
    let res = guarded(|| e.deserialize(data));
    let (peak, largest) = alloc::disarm();
    let grown = peak.saturating_sub(base);
    if grown > limit {
        viol.push(("C10:unbounded-allocation".to_string(), json!({"peak_growth_bytes": grown, "largest_request": largest, "input_len": data.len()})));
    }
    match res {
        Err(sig) => {
            viol.push((format!("C10:deserialize:{}", sig), json!({"input_len": data.len()})));
            // state may be anything now; restore
            *e = prior_engine();
        }
        Ok(Err(_)) => {
            tally.err += 1;
            // atomicity: the engine behaves exactly as before the call
            let same_bytes = guarded(|| e.serialize_raw().map(|b| b == prior.buf).unwrap_or(false));
            let same_battery = guarded(|| battery(e, preqs) == prior.battery);
            match (same_bytes.clone(), same_battery.clone()) {
                (Ok(true), Ok(true)) => {}
                (Err(sig), _) | (_, Err(sig)) => {
                    viol.push((format!("C10:after-rejected-load:{}", sig), json!({})));
                    *e = prior_engine();
                }
                _ => {
                    viol.push(("C10:rejected-load-changed-engine-state".to_string(), json!({"bytes_equal": format!("{:?}", same_bytes), "battery_equal": format!("{:?}", same_battery)})));
                    *e = prior_engine();
                }
            }
        }
        Ok(Ok(())) => {
            tally.ok += 1;
            // the loaded engine answers queries and re-serializes without panicking
            e.use_resources(scriptlet_resources().iter().map(|r| r.to_resource()));
            let r1 = guarded(|| battery(e, subject_reqs));
            if let Err(sig) = r1 {
                viol.push((format!("C10:query-after-accepted-load:{}", sig), json!({})));
            }
            let r2 = guarded(|| {
                let mut t = Engine::new(true);
                std::mem::swap(&mut t, e);
                let mut t = t;
                t.use_tags(&["t1", "p1"]);
                let _ = t.serialize_raw();
                t.use_tags(&[]);
                let _ = battery(&t, subject_reqs);
            });
            if let Err(sig) = r2 {
                viol.push((format!("C10:tags-or-serialize-after-accepted-load:{}", sig), json!({})));
            }
            // back to the known prior state
            *e = prior_engine();
        }
    }
    viol
}

fn hex(b: &[u8]) -> String {
    b.iter().map(|x| format!("{:02x}", x)).collect()
}

pub fn run(ctx: &mut Ctx) {
    let nsubjects = ctx.n(6, 120);
    let seed = ctx.seed;
    let prior_e = prior_engine();
    let preqs = prior_reqs();
    let prior = Prior { buf: prior_e.serialize_raw().expect("serialize"), battery: battery(&prior_e, &preqs) };
    let mut e = prior_engine();
    let mut tally = Tally::default();
    // stratified sampling for the slow sanitizer stages: --set sample=N keeps every N-th fault
    let sample: u64 = ctx.extra.get("sample").and_then(|s| s.parse().ok()).unwrap_or(1);

    for k in 0..nsubjects {
        let s = subject(seed, k);
        let b = &s.buf;
        ctx.obs_max("max_subject_buffer_len", b.len() as i64);
        let markers = msgpack_markers(b);
        ctx.obs("structural_marker_offsets", markers.len() as i64);
        // fault index space for this subject
        let n_prefix = b.len() as u64; // prefixes of length 0..len-1
        let n_flip = (b.len() * 8) as u64;
        let n_subst = (markers.len() * SUBST.len()) as u64;
        let n_lenpm = (markers.len() * 2) as u64;
        // every adjacent byte pair inside a string payload replaced by one 2-byte character (the
        // declared length stays valid, so the decoder accepts it and the *content* becomes hostile)
        let strings = msgpack_strings(b);
        let pairs: Vec<usize> = strings.iter().flat_map(|(st, len)| (0..len.saturating_sub(1)).map(move |k| st + k)).collect();
        let n_pairs = (pairs.len() * 2) as u64;
        // every string replaced as a whole by nil / by the empty string (structure stays valid:
        // optional text such as a rule's raw line or tag simply goes missing)
        let n_strnil = (strings.len() * 2) as u64;
        let n_rand = ctx.n(1_500, 20_000);
        let total = n_prefix + n_flip + n_subst + n_lenpm + n_pairs + n_strnil + n_rand;
        let sub = format!("s{}", k);
        let mut complete = true;
        for f in 0..total {
            if ctx.stop() {
                complete = false;
                break;
            }
            if sample > 1 && f % sample != 0 {
                continue;
            }
            if !ctx.begin_case(&sub, f) {
                continue;
            }
            let (kind, data): (&str, Vec<u8>) = if f < n_prefix {
                ("prefix", b[..f as usize].to_vec())
            } else if f < n_prefix + n_flip {
                let g = (f - n_prefix) as usize;
                let mut d = b.clone();
                d[g / 8] ^= 1 << (g % 8);
                ("bitflip", d)
            } else if f < n_prefix + n_flip + n_subst {
                let g = (f - n_prefix - n_flip) as usize;
                let mut d = b.clone();
                d[markers[g / SUBST.len()]] = SUBST[g % SUBST.len()];
                ("marker-substitution", d)
            } else if f < n_prefix + n_flip + n_subst + n_lenpm {
                let g = (f - n_prefix - n_flip - n_subst) as usize;
                let mut d = b.clone();
                let at = markers[g / 2];
                d[at] = if g % 2 == 0 { d[at].wrapping_add(1) } else { d[at].wrapping_sub(1) };
                ("marker-plus-minus-one", d)
            } else if f < n_prefix + n_flip + n_subst + n_lenpm + n_pairs {
                let g = (f - n_prefix - n_flip - n_subst - n_lenpm) as usize;
                let mut d = b.clone();
                let at = pairs[g / 2];
                let ch: [u8; 2] = if g % 2 == 0 { [0xc3, 0xa9] } else { [0xd9, 0xbf] }; // 'é' / 'ٿ'
                d[at] = ch[0];
                d[at + 1] = ch[1];
                ("utf8-pair-in-string", d)
            } else if f < n_prefix + n_flip + n_subst + n_lenpm + n_pairs + n_strnil {
                let g = (f - n_prefix - n_flip - n_subst - n_lenpm - n_pairs) as usize;
                let (start, len) = strings[g / 2];
                let hdr = if b[start - 1] & 0xe0 == 0xa0 && (b[start - 1] & 0x1f) as usize == len {
                    1
                } else if start >= 2 && b[start - 2] == 0xd9 {
                    2
                } else {
                    3
                };
                let mut d = b[..start - hdr].to_vec();
                d.push(if g % 2 == 0 { 0xc0 } else { 0xa0 });
                d.extend_from_slice(&b[start + len..]);
                ("string-to-nil-or-empty", d)
            } else {
                let mut r = Rng::for_case(seed, "c10.rand", f ^ (k << 32));
                let mut d = b.clone();
                match r.below(5) {
                    0 => {
                        // splice random bytes
                        let at = HEADER + r.below(d.len() - HEADER);
                        let n = 1 + r.below(8);
                        for i in 0..n {
                            if at + i < d.len() {
                                d[at + i] = r.next() as u8;
                            }
                        }
                    }
                    1 => {
                        // duplicate a slice
                        let at = HEADER + r.below(d.len() - HEADER);
                        let n = 1 + r.below(32.min(d.len() - at));
                        let slice = d[at..at + n].to_vec();
                        let ins = HEADER + r.below(d.len() - HEADER);
                        d.splice(ins..ins, slice);
                    }
                    2 => {
                        // truncate + garbage
                        let at = HEADER + r.below(d.len() - HEADER);
                        d.truncate(at);
                        for _ in 0..r.below(16) {
                            d.push(r.next() as u8);
                        }
                    }
                    3 => {
                        // delete a slice
                        let at = HEADER + r.below(d.len() - HEADER);
                        let n = 1 + r.below(16.min(d.len() - at));
                        d.drain(at..at + n);
                    }
                    _ => {
                        // several bit flips
                        for _ in 0..2 + r.below(4) {
                            let g = HEADER * 8 + r.below((d.len() - HEADER) * 8);
                            d[g / 8] ^= 1 << (g % 8);
                        }
                    }
                }
                ("random-multibyte", d)
            };
            let entered = data.len() > HEADER && data[..HEADER] == b[..HEADER] && data != *b;
            let viol = apply(&mut e, &prior, &preqs, &s.reqs, &data, &mut tally);
            ctx.eval();
            ctx.obs(&format!("faults_{}", kind), 1);
            if entered {
                ctx.nontrivial(fnv_bytes(&data));
            }
            for (sig, mut d) in viol {
                if let Some(o) = d.as_object_mut() {
                    o.insert("fault_kind".into(), json!(kind));
                    o.insert("subject_rules".into(), json!(s.lines));
                    o.insert("buffer_hex".into(), json!(hex(&data)));
                }
                ctx.violation(&sub, f, &sig, d);
            }
            if f % 997 == 0 {
                ctx.sample_tagged(kind, || json!({"subject_rules": s.lines, "fault_index": f, "buffer_len": data.len(), "buffer_hex_prefix": hex(&data[..data.len().min(48)])}));
            }
        }
        if complete && sample == 1 && ctx.only_case.is_none() {
            ctx.report.exhaustive.push(format!(
                "subject buffer {} ({} bytes): all {} prefixes, all {} single-bit flips, {} marker substitutions, {} marker +-1, {} two-byte-character substitutions inside string payloads (this shard's share)",
                k,
                b.len(),
                n_prefix,
                n_flip,
                n_subst,
                n_lenpm,
                n_pairs
            ));
        }
    }

    // arbitrary strings incl. every header variant
    let magic = [0xd1u8, 0xd9, 0x3a, 0xaf];
    let mut arbitrary: Vec<Vec<u8>> = vec![vec![], magic.to_vec(), vec![31, 139, 8, 0, 0, 0, 0, 0, 0, 255], vec![31, 139, 8, 0, 0, 0, 0, 0, 0, 255, 1, 2, 3], b"hello world".to_vec(), vec![0xd1], vec![0xd1, 0xd9, 0x3a]];
    for v in 0..=255u8 {
        let mut d = magic.to_vec();
        d.push(v);
        arbitrary.push(d.clone());
        d.extend_from_slice(&[0xdc, 0x00, 0x13]);
        arbitrary.push(d);
    }
    // every prefix of every header variant (V0 magic + version, the legacy gzip header, a gzip
    // member header with each flag byte)
    let legacy = [31u8, 139, 8, 0, 0, 0, 0, 0, 0, 255];
    for k in 0..=legacy.len() {
        arbitrary.push(legacy[..k].to_vec());
    }
    for flags in [0u8, 1, 2, 4, 8, 16, 31, 32, 255] {
        for k in 3..=10 {
            let mut g = vec![31u8, 139, 8, flags, 1, 2, 3, 4, 0, 3];
            g.truncate(k);
            arbitrary.push(g);
        }
    }
    let mut v0 = magic.to_vec();
    v0.extend_from_slice(&[0, 0xdc, 0x00, 0x13]);
    for k in 0..=v0.len() {
        arbitrary.push(v0[..k].to_vec());
    }
    // declared-length bombs right after the header
    for bomb in [
        vec![0xdb, 0xff, 0xff, 0xff, 0xff],
        vec![0xc6, 0xff, 0xff, 0xff, 0xff],
        vec![0xdd, 0xff, 0xff, 0xff, 0xff],
        vec![0xdf, 0xff, 0xff, 0xff, 0xff],
        vec![0xdc, 0x00, 0x13, 0xdd, 0xff, 0xff, 0xff, 0xff],
        vec![0xdc, 0x00, 0x13, 0x91, 0x81, 0x01, 0xdd, 0x7f, 0xff, 0xff, 0xff],
        vec![0xdc, 0x00, 0x13, 0x91, 0x81, 0x01, 0x91, 0xdc, 0x00, 0x0d, 0x01, 0xdb, 0xff, 0xff, 0xff, 0xf0],
    ] {
        let mut d = magic.to_vec();
        d.push(0);
        d.extend_from_slice(&bomb);
        arbitrary.push(d);
    }
    let n_rand = ctx.n(3_000, 60_000);
    for i in 0..(arbitrary.len() as u64 + n_rand) {
        if ctx.stop() {
            break;
        }
        if !ctx.begin_case("arbitrary", i) {
            continue;
        }
        let data: Vec<u8> = if (i as usize) < arbitrary.len() {
            arbitrary[i as usize].clone()
        } else {
            let mut r = Rng::for_case(seed, "c10.arb", i);
            let mut d = if r.chance(2, 3) { let mut m = magic.to_vec(); m.push(0); m } else { vec![] };
            for _ in 0..r.below(64) {
                d.push(if r.chance(1, 3) { *r.pick(SUBST) } else { r.next() as u8 });
            }
            d
        };
        let viol = apply(&mut e, &prior, &preqs, &preqs, &data, &mut tally);
        ctx.eval();
        ctx.obs("faults_arbitrary", 1);
        if data.len() > HEADER && data[..4] == magic && data[4] == 0 {
            ctx.nontrivial(fnv_bytes(&data));
        }
        for (sig, mut d) in viol {
            if let Some(o) = d.as_object_mut() {
                o.insert("fault_kind".into(), json!("arbitrary"));
                o.insert("buffer_hex".into(), json!(hex(&data)));
            }
            ctx.violation("arbitrary", i, &sig, d);
        }
    }
    ctx.obs("loads_accepted", tally.ok as i64);
    ctx.obs("loads_rejected", tally.err as i64);
}
