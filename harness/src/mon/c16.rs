//! C16 — per-site cosmetic resources contain exactly the rules scoped to that host.
//!
//! `url_cosmetic_resources(u)` vs O-cosmetic for lists mixing hostnames, subdomains, entities,
//! negations, #@#, actions, +js with arguments, blanket #@#+js(), IDN hosts, plus
//! `@@...$generichide` network rules; pages over multi-label public suffixes and deep subdomains.

use crate::gen_cos::{gen_cos_list, CosRule, PAGES};
use crate::mon::c08::build;
use crate::oracle::cosmetic::{canonical_action, page_model};
use crate::oracle::scan::parse_network;
use crate::report::{guarded, Ctx};
use crate::rng::{fnv, Rng};
use adblock::filters::network::NetworkMatchable;
use adblock::lists::{parse_filter, ParseOptions};
use adblock::regex_manager::RegexManager;
use adblock::request::Request;
use serde_json::json;
use std::collections::BTreeSet;

/// Invocation blocks of an injected script.
pub fn invocations(script: &str) -> BTreeSet<String> {
    let mut out = BTreeSet::new();
    let mut rest = script;
    while let Some(i) = rest.find("try {\n") {
        let after = &rest[i + 6..];
        match after.find("\n} catch ( e ) { }\n") {
            Some(j) => {
                out.insert(after[..j].to_string());
                rest = &after[j..];
            }
            None => break,
        }
    }
    out
}

/// Expected invocation text for a `+js(args)` rule under list permission 0 with the standard
/// scriptlet store, or None if nothing may be injected for it.
pub fn expected_invocation(args: &str) -> Option<String> {
    let parts: Vec<&str> = args.split(',').map(|s| s.trim()).collect();
    let name = parts.first()?;
    let a = &parts[1..];
    let quoted: Vec<String> = a.iter().map(|x| format!("\"{}\"", x)).collect();
    match *name {
        "s0" => Some(format!("s0({})", quoted.join(", "))),
        "s1" => Some(format!("s1({})", quoted.join(", "))),
        "s2" => None, // needs permission bit 1
        "tmpl" => Some(format!("/*TMPL*/ console.log('{}')", a.first().unwrap_or(&"{{1}}"))),
        _ => None,
    }
}

pub fn run(ctx: &mut Ctx) {
    let sub = "pages";
    let cases = ctx.n(100_000, 9_000_000);
    for idx in 0..cases {
        if ctx.stop() {
            break;
        }
        if !ctx.begin_case(sub, idx) {
            continue;
        }
        let seed = ctx.seed;
        let out = guarded(|| {
            let mut r = Rng::for_case(seed, "c16", idx);
            let rules: Vec<CosRule> = gen_cos_list(&mut r, 14, true);
            let mut lines: Vec<String> = rules.iter().map(|c| c.line.clone()).collect();
            // generichide network exceptions for some page hosts
            let mut gh: Vec<String> = vec![];
            for _ in 0..r.below(3) {
                let h = r.pick(PAGES).0;
                gh.push(match r.below(3) {
                    0 => format!("@@||{}^$generichide", h),
                    1 => format!("@@||{}^$ghide", h),
                    _ => format!("@@||{}/p$generichide", h),
                });
            }
            lines.extend(gh.iter().cloned());
            // a blocking rule must not influence cosmetic answers
            lines.push("||example.com^".to_string());
            r.shuffle(&mut lines);
            let debug = r.chance(1, 2);
            let e = if r.chance(1, 4) {
                // resources delivered late and one by one, after every page has been asked once
                // without them (answers must follow the current resources, not earlier lookups)
                let mut fs = adblock::lists::FilterSet::new(debug);
                fs.add_filters(&lines, ParseOptions::default());
                let mut e = adblock::Engine::from_filter_set(fs, r.chance(1, 2));
                for (host, _) in PAGES {
                    let _ = e.url_cosmetic_resources(&format!("https://{}/p", host));
                }
                for res in crate::mon::c08::scriptlet_resources() {
                    let _ = e.add_resource(res.to_resource());
                }
                e
            } else {
                build(&lines, debug, r.chance(1, 2), 0)
            };
            // one engine in three is replaced by its twin loaded from serialized bytes: the same
            // reference applies to it
            let reloaded = r.chance(1, 3);
            let e = if reloaded { crate::mon::c08::roundtrip(&e, r.chance(1, 2)).expect("round trip of own buffer") } else { e };
            let mut e = e;
            if r.chance(1, 4) {
                // a rejected load must leave the engine as it was
                let junk: [&[u8]; 4] = [b"", b"\xd1\xd9\x3a\xaf\x07", b"garbage", b"\xd1\xd9\x3a\xaf\x00\xdc\x00\x13\x91"];
                let _ = e.deserialize(junk[r.below(4)]);
            }
            let parsed: Vec<&CosRule> = rules.iter().filter(|x| parse_filter(&x.line, true, ParseOptions::default()).is_ok()).collect();
            let ghf: Vec<_> = gh.iter().filter_map(|l| parse_network(l, ParseOptions::default())).collect();
            let mut rm = RegexManager::default();
            let mut out = vec![];
            for (host, domain) in PAGES {
                let url = format!("https://{}/p", host);
                let generichide = match Request::new(&url, &url, "document") {
                    Ok(rq) => ghf.iter().any(|f| f.matches(&rq, &mut rm)),
                    Err(_) => false,
                };
                let m = page_model(&parsed, host, domain, generichide);
                let res = e.url_cosmetic_resources(&url);
                let got_hide: BTreeSet<String> = res.hide_selectors.iter().cloned().collect();
                let got_exc: BTreeSet<String> = res.exceptions.iter().cloned().collect();
                let got_act: BTreeSet<String> = res.procedural_actions.iter().map(|s| canonical_action(s)).collect();
                let got_inv = invocations(&res.injected_script);
                let want_inv: BTreeSet<String> = m.scripts.iter().filter_map(|a| expected_invocation(a)).collect();
                let mut sigs: Vec<&str> = vec![];
                if got_hide != m.hide {
                    sigs.push("C16:hide_selectors");
                }
                if got_exc != m.exceptions {
                    sigs.push("C16:exceptions");
                }
                if got_act != m.actions {
                    sigs.push("C16:procedural_actions");
                }
                if got_inv != want_inv {
                    sigs.push("C16:injected_script-invocations");
                }
                if res.generichide != generichide {
                    sigs.push("C16:generichide-flag");
                }
                if generichide && got_hide.iter().any(|s| m.generic_misc.contains(s) && !parsed.iter().any(|ru| !ru.pos.is_empty() && matches!(&ru.body, crate::gen_cos::Body::Hide(x) if x == s))) {
                    sigs.push("C16:generic-selector-returned-under-generichide");
                }
                // dependency bodies: every function-style invocation needs its definition exactly once
                for (marker, needle) in [("s0(", "/*S0*/"), ("s1(", "/*S1*/"), ("s1(", "/*DEP1*/")] {
                    let invoked = got_inv.iter().any(|i| i.starts_with(marker));
                    let n = res.injected_script.matches(needle).count();
                    if (invoked && n != 1) || (!invoked && n != 0) {
                        sigs.push("C16:scriptlet-definitions");
                    }
                }
                let nt = m.scoped_here >= 1 && m.scoped_elsewhere >= 1;
                let h = fnv(&format!("{:?}|{}", lines, host));
                let detail = json!({"rules": lines, "page": url, "generichide_expected": generichide,
                    "engine": {"hide_selectors": got_hide, "exceptions": got_exc, "procedural_actions": got_act, "invocations": got_inv, "generichide": res.generichide},
                    "model": {"hide_selectors": m.hide, "exceptions": m.exceptions, "procedural_actions": m.actions, "invocations": want_inv}});
                let n_proc = got_act.iter().filter(|a| !a.contains("\"action\"")).count();
                out.push((sigs, nt, h, detail, generichide, !got_act.is_empty(), n_proc > 0));
            }
            out
        });
        match out {
            Err(sig) => ctx.violation(sub, idx, &format!("C16:{}", sig), json!({})),
            Ok(evs) => {
                for (sigs, nt, h, detail, gh, has_actions, has_procedural) in evs {
                    ctx.eval();
                    if has_actions {
                        ctx.obs("pages_with_action_or_procedural_filters", 1);
                    }
                    if has_procedural {
                        ctx.obs("pages_with_procedural_operator_filters", 1);
                    }
                    if gh {
                        ctx.obs("pages_under_generichide", 1);
                    }
                    if nt {
                        ctx.nontrivial(h);
                    }
                    if sigs.is_empty() {
                        if nt {
                            ctx.sample(|| detail);
                        }
                    } else {
                        for s in sigs {
                            ctx.violation(sub, idx, s, detail.clone());
                        }
                    }
                }
            }
        }
    }
}
