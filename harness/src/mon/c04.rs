//! C04 — exception / important / badfilter precedence; rule addition is monotone.
//!
//! (spec)  blocked(L, r) vs O-scan on lists biased towards mixed exception/important/blocking hits
//! (mono)  oracle-free monotonicity: adding an exception never blocks, adding a blocking rule never
//!         unblocks
//! (bad)   badfilter pairs: a re-spelt twin cancels, a one-aspect-different twin does not, a lone
//!         badfilter blocks nothing

use crate::gen::{self, gen_request, gen_rule, standard_resources, Profile, TAGS};
use crate::mon::common::{ask, build_engine, diff, minimize_rules, verdict_json};
use crate::oracle::resources::ResModel;
use crate::oracle::scan::{Cat, Scan};
use crate::report::{guarded, Ctx};
use crate::rng::{fnv, Rng};
use adblock::lists::ParseOptions;
use adblock::request::Request;
use serde_json::json;
use std::collections::HashSet;

pub fn run(ctx: &mut Ctx) {
    spec(ctx);
    monotone(ctx);
    badfilter(ctx);
}

const MONO: Profile = Profile {
    exceptions: true,
    important: true,
    csp: false,
    removeparam: false,
    redirect: true,
    badfilter: false,
    tags: true,
    generichide: true,
    full_regex: true,
    domains: true,
};

/// Rules that all match one target URL, in mixed categories, plus vocabulary noise.
fn targeted_list(r: &mut Rng) -> (Vec<String>, gen::Req) {
    let host = r.ps(gen::HOSTS);
    let t1 = r.ps(gen::TOK);
    let t2 = r.ps(gen::TOK);
    let url = format!("https://{}/{}/{}.js?x1=1", host, t1, t2);
    let frags: Vec<String> = vec![
        format!("||{}^", host),
        format!("||{}/{}", host, t1),
        format!("/{}/{}.", t1, t2),
        format!("/{}/", t1),
        format!("{}.js", t2),
        format!("|https://{}/", host),
        format!("/{}/*.js", t1),
        format!("{}.js?x1=1|", t2),
        format!("/\\/{}\\/[a-z0-9]+\\.js/", t1),
        format!("||{}^*{}", host, t2),
    ];
    let k = 2 + r.below(6);
    let mut rules = vec![];
    for _ in 0..k {
        let f = r.pick(&frags).clone();
        let mut opts: Vec<String> = vec![];
        let cat = r.below(10);
        let mut line = String::new();
        match cat {
            0..=2 => {
                line.push_str("@@");
                // `@@...$important` is still an exception
                if r.chance(1, 5) {
                    opts.push("important".into());
                }
            }
            3 | 4 => opts.push("important".into()),
            _ => {}
        }
        line.push_str(&f);
        if r.chance(1, 4) {
            opts.push(r.ps(&["script", "~image", "script,xhr", "third-party", "~third-party", "image"]).into());
        }
        if r.chance(1, 6) {
            opts.push(format!("tag={}", r.ps(TAGS)));
        }
        if r.chance(1, 8) {
            opts.push(format!("domain={}", r.ps(gen::HOSTS)));
        }
        if r.chance(1, 10) && !opts.iter().any(|o| o.starts_with("tag=")) {
            // a redirect modifier does not change what kind of rule this is
            opts.push(format!("{}={}", r.ps(&["redirect", "redirect-rule"]), r.ps(&["noop.js", "1x1.gif"])));
        }
        if !opts.is_empty() {
            line.push('$');
            line.push_str(&opts.join(","));
        }
        rules.push(line);
    }
    let noise = r.below(5);
    for _ in 0..noise {
        rules.push(gen_rule(r, &Profile::PLAIN));
    }
    if r.chance(1, 6) && !rules.is_empty() {
        let b = r.pick(&rules).clone();
        rules.push(if b.contains('$') { format!("{},badfilter", b) } else { format!("{}$badfilter", b) });
    }
    r.shuffle(&mut rules);
    let source = match r.below(4) {
        0 => String::new(),
        1 => format!("https://{}/", host),
        _ => format!("https://{}/", r.ps(gen::HOSTS)),
    };
    (
        rules,
        gen::Req {
            url,
            source,
            rtype: r.ps(&["script", "script", "image", "xhr", "document", "other"]),
        },
    )
}

fn spec(ctx: &mut Ctx) {
    let sub = "spec";
    let cases = ctx.n(300_000, 16_000_000);
    let resdefs = standard_resources();
    let res = ResModel { defs: &resdefs };
    for idx in 0..cases {
        if ctx.stop() {
            break;
        }
        if !ctx.begin_case(sub, idx) {
            continue;
        }
        let seed = ctx.seed;
        let out = guarded(|| {
            let mut r = Rng::for_case(seed, "c04.spec", idx);
            let (rules, target) = targeted_list(&mut r);
            let optimize = r.chance(1, 2);
            let tags: Vec<&str> = TAGS.iter().filter(|_| r.chance(1, 2)).cloned().collect();
            let tagset: HashSet<String> = tags.iter().map(|s| s.to_string()).collect();
            let opts = ParseOptions::default();
            let mut e = build_engine(&rules, opts, true, optimize);
            e.use_tags(&tags);
            let mut scan = Scan::new(&rules, opts);
            let mut evs = vec![];
            // the same list added one rule at a time ($badfilter rules cannot be added that way)
            let live = if rules.iter().any(|l| l.contains("badfilter")) {
                None
            } else {
                let mut b = adblock::blocker::Blocker::new(vec![], &adblock::blocker::BlockerOptions { enable_optimizations: false });
                for line in &rules {
                    let (mut nf, _) = adblock::lists::parse_filters([line], true, opts);
                    if let Some(f) = nf.pop() {
                        let _ = b.add_filter(f);
                    }
                }
                b.use_tags(&tags);
                Some((b, adblock::resources::ResourceStorage::from_resources(gen::standard_resources().iter().map(|d| d.to_resource()))))
            };
            let mut reqs = vec![target];
            reqs.push(gen_request(&mut r, &rules));
            for q in reqs {
                let rq = match Request::new(&q.url, &q.source, q.rtype) {
                    Ok(rq) => rq,
                    Err(_) => continue,
                };
                let a = ask(&e, &rq);
                let v = scan.verdict(&rq, &q.url, &tagset, &res);
                let cats = v.hit_cats
                    & ((1 << Cat::Exception as u32) | (1 << Cat::Important as u32) | (1 << Cat::Normal as u32) | (1 << Cat::Tagged as u32));
                let nt = cats.count_ones() >= 2;
                let d: Vec<&str> = diff(&a, &v).into_iter().filter(|f| matches!(*f, "matched" | "important" | "exception")).collect();
                let h = fnv(&format!("{:?}|{:?}|{}|{}|{}", rules, tags, q.url, q.source, q.rtype));
                if let (true, Some((b, storage))) = (d.is_empty(), &live) {
                    let a2 = crate::mon::c05::blocker_answer(b, storage, &rq);
                    let d2: Vec<&str> = diff(&a2, &v).into_iter().filter(|f| matches!(*f, "matched" | "important" | "exception")).collect();
                    if !d2.is_empty() {
                        evs.push((
                            Some(format!("C04:precedence:incremental:{}", d2.join("+"))),
                            nt,
                            h,
                            json!({"rules_added_one_at_a_time": rules, "tags": tags, "url": q.url, "source": q.source, "type": q.rtype, "blocker": a2.to_json(), "oracle": verdict_json(&v)}),
                        ));
                    }
                }
                if d.is_empty() {
                    // the same precedence through the multi-engine entry point
                    for (prev, force) in [(true, false), (true, true), (false, true)] {
                        let s = e.check_network_request_subset(&rq, prev, force);
                        let want = v.with_flags(prev, force, rq.is_supported);
                        if (s.matched, s.important, s.exception.is_some()) != want {
                            evs.push((
                                Some("C04:precedence:subset-entry-point".to_string()),
                                nt,
                                h,
                                json!({"rules": rules, "tags": tags, "url": q.url, "source": q.source, "type": q.rtype, "optimize": optimize,
                                    "previously_matched_rule": prev, "force_check_exceptions": force,
                                    "engine": {"matched": s.matched, "important": s.important, "exception": s.exception},
                                    "reference": {"matched": want.0, "important": want.1, "exception": want.2}}),
                            ));
                        }
                    }
                    evs.push((None, nt, h, json!({"rules": rules, "tags": tags, "url": q.url, "source": q.source, "type": q.rtype, "verdict": a.to_json(), "matching_rules": v.hits})));
                } else {
                    let min = minimize_rules(&rules, |cand| {
                        let mut e2 = build_engine(cand, opts, true, optimize);
                        e2.use_tags(&tags);
                        let mut s2 = Scan::new(cand, opts);
                        let v2 = s2.verdict(&rq, &q.url, &tagset, &res);
                        diff(&ask(&e2, &rq), &v2).iter().any(|f| matches!(*f, "matched" | "important" | "exception"))
                    });
                    evs.push((
                        Some(format!("C04:precedence:{}", d.join("+"))),
                        nt,
                        h,
                        json!({"rules": rules, "minimised_rules": min, "tags": tags, "url": q.url, "source": q.source, "type": q.rtype,
                            "optimize": optimize, "engine": a.to_json(), "oracle": verdict_json(&v)}),
                    ));
                }
            }
            evs
        });
        match out {
            Err(sig) => ctx.violation(sub, idx, &format!("C04:{}", sig), json!({})),
            Ok(evs) => {
                for (sig, nt, h, detail) in evs {
                    ctx.eval();
                    if nt {
                        ctx.nontrivial(h);
                        ctx.obs("spec_cases_with_two_categories_hit", 1);
                    }
                    match sig {
                        Some(s) => ctx.violation(sub, idx, &s, detail),
                        None => {
                            if nt {
                                ctx.sample_tagged("spec", || detail)
                            }
                        }
                    }
                }
            }
        }
    }
}

fn monotone(ctx: &mut Ctx) {
    let sub = "mono";
    let cases = ctx.n(150_000, 8_000_000);
    for idx in 0..cases {
        if ctx.stop() {
            break;
        }
        if !ctx.begin_case(sub, idx) {
            continue;
        }
        let seed = ctx.seed;
        let out = guarded(|| {
            let mut r = Rng::for_case(seed, "c04.mono", idx);
            let (mut rules, target) = match r.below(6) {
                0..=2 => targeted_list(&mut r),
                3 => {
                    // token-less rules indexed under their initiator sites (one shared object in
                    // several buckets), plus a few ordinary ones
                    let mut l = gen::gen_domain_cluster(&mut r, &Profile::ALL);
                    l.extend(gen::gen_list(&mut r, &Profile::ALL, 4));
                    let q = gen_request(&mut r, &l);
                    (l, q)
                }
                _ => {
                    let l = gen::gen_list(&mut r, &Profile::ALL, 14);
                    let q = gen_request(&mut r, &l);
                    (l, q)
                }
            };
            // L must not cancel x by accident through a badfilter generated for another rule: allowed,
            // monotonicity must hold anyway.
            let x = if r.chance(1, 2) {
                // an extra rule aimed at the target
                let (t, _) = targeted_list(&mut r);
                let cand: Vec<String> = t.into_iter().filter(|l| !l.contains("badfilter")).collect();
                if cand.is_empty() { gen_rule(&mut r, &MONO) } else { r.pick(&cand).clone() }
            } else {
                gen_rule(&mut r, &MONO)
            };
            let x = if r.chance(1, 3) && !rules.is_empty() {
                // derive x from an existing rule by toggling its exception-ness (shares all tokens)
                let b = r.pick(&rules).clone();
                if b.contains("badfilter") || b.contains("csp") || b.contains("removeparam") || b.contains("important") || b.contains("generichide") || b.contains("ghide") {
                    x
                } else if let Some(s) = b.strip_prefix("@@") {
                    s.to_string()
                } else {
                    format!("@@{}", b)
                }
            } else {
                x
            };
            let x_parsed = match crate::oracle::scan::parse_network(&x, ParseOptions::default()) {
                Some(f) => f,
                None => return vec![],
            };
            use adblock::filters::network::NetworkFilterMaskHelper;
            if x_parsed.is_badfilter() || x_parsed.is_csp() || x_parsed.is_removeparam() {
                return vec![];
            }
            let x_is_exception = x_parsed.is_exception();
            let optimize = r.chance(1, 2);
            let tags: Vec<&str> = TAGS.iter().filter(|_| r.chance(1, 2)).cloned().collect();
            let opts = ParseOptions::default();
            let mut e0 = build_engine(&rules, opts, true, optimize);
            e0.use_tags(&tags);
            // the same relation on a live, optimised Blocker that receives x through add_filter and
            // is optimised again (lists without $badfilter only)
            let live = if rules.iter().any(|l| l.contains("badfilter")) {
                None
            } else {
                let mk = |grow: bool| {
                    let (nf, _) = adblock::lists::parse_filters(&rules, true, opts);
                    let mut b = adblock::blocker::Blocker::new(nf, &adblock::blocker::BlockerOptions { enable_optimizations: true });
                    if grow {
                        let (mut one, _) = adblock::lists::parse_filters([&x], true, opts);
                        if let Some(f) = one.pop() {
                            let _ = b.add_filter(f);
                        }
                        b.optimize();
                    }
                    b.use_tags(&tags);
                    b
                };
                Some((mk(false), mk(true), adblock::resources::ResourceStorage::default()))
            };
            let pos = r.below(rules.len() + 1);
            rules.insert(pos, x.clone());
            let mut e1 = build_engine(&rules, opts, true, optimize);
            e1.use_tags(&tags);
            let mut evs = vec![];
            let mut reqs = vec![target];
            for _ in 0..3 {
                reqs.push(gen_request(&mut r, &rules));
            }
            let mut rm = adblock::regex_manager::RegexManager::default();
            for q in reqs {
                let rq = match Request::new(&q.url, &q.source, q.rtype) {
                    Ok(rq) => rq,
                    Err(_) => continue,
                };
                let b0 = e0.check_network_request(&rq).matched;
                let b1 = e1.check_network_request(&rq).matched;
                use adblock::filters::network::NetworkMatchable;
                let x_matches = x_parsed.matches(&rq, &mut rm);
                if let Some((l0, l1, st)) = &live {
                    let (m0, m1) = (l0.check(&rq, st).matched, l1.check(&rq, st).matched);
                    let bad_live = if x_is_exception { m1 && !m0 } else { m0 && !m1 };
                    if bad_live {
                        evs.push((
                            true,
                            true,
                            fnv(&format!("live|{:?}|{}|{}", rules, x, q.url)),
                            json!({"list": rules, "x_added_through_add_filter_then_optimize": x, "x_is_exception": x_is_exception, "tags": tags,
                                "url": q.url, "source": q.source, "type": q.rtype, "blocked_before": m0, "blocked_after": m1}),
                        ));
                    }
                }
                let bad = if x_is_exception { b1 && !b0 } else { b0 && !b1 };
                evs.push((
                    bad,
                    b0 != b1 || x_matches,
                    fnv(&format!("{:?}|{}|{:?}|{}|{}|{}", rules, pos, tags, q.url, q.source, q.rtype)),
                    json!({"list_with_x": rules, "x": x, "x_position": pos, "x_is_exception": x_is_exception, "tags": tags, "optimize": optimize,
                        "url": q.url, "source": q.source, "type": q.rtype, "blocked_without_x": b0, "blocked_with_x": b1}),
                ));
            }
            evs
        });
        match out {
            Err(sig) => ctx.violation(sub, idx, &format!("C04:{}", sig), json!({})),
            Ok(evs) => {
                for (bad, nt, h, detail) in evs {
                    ctx.eval();
                    if nt {
                        ctx.nontrivial(h);
                        ctx.obs("mono_cases_where_x_matters", 1);
                    }
                    if bad {
                        let exc = detail["x_is_exception"].as_bool().unwrap_or(false);
                        ctx.violation(
                            sub,
                            idx,
                            if exc { "C04:monotonicity:exception-added-blocks" } else { "C04:monotonicity:blocking-rule-added-unblocks" },
                            detail,
                        );
                    } else if nt {
                        ctx.sample_tagged("mono", || detail);
                    }
                }
            }
        }
    }
}

// ---------------------------------------------------------------------------------------------
// badfilter pairs
// ---------------------------------------------------------------------------------------------

#[derive(Clone, Debug)]
struct BaseRule {
    exception: bool,
    pattern: String,
    types: Vec<&'static str>, // positive canonical type names
    party: Option<bool>,      // Some(true) = third-party only, Some(false) = first-party only
    included: Vec<&'static str>,
    excluded: Vec<&'static str>,
    sample_url: String,
}

fn spell_type(r: &mut Rng, t: &str) -> &'static str {
    let alt = r.chance(1, 2);
    match t {
        "xmlhttprequest" => if alt { "xhr" } else { "xmlhttprequest" },
        "stylesheet" => if alt { "css" } else { "stylesheet" },
        "subdocument" => if alt { "frame" } else { "subdocument" },
        "ping" => if alt { "beacon" } else { "ping" },
        "script" => "script",
        "image" => "image",
        "font" => "font",
        "media" => "media",
        _ => "other",
    }
}

fn spell(r: &mut Rng, b: &BaseRule, badfilter: bool, canonical: bool) -> String {
    let mut opts: Vec<String> = vec![];
    for t in &b.types {
        opts.push(if canonical { t.to_string() } else { spell_type(r, t).to_string() });
    }
    match b.party {
        Some(true) => opts.push(if canonical { "third-party".into() } else { r.ps(&["third-party", "3p", "~first-party", "~1p"]).into() }),
        Some(false) => opts.push(if canonical { "~third-party".into() } else { r.ps(&["~third-party", "~3p", "first-party", "1p"]).into() }),
        None => {}
    }
    if !b.included.is_empty() || !b.excluded.is_empty() {
        let mut parts: Vec<String> = b.included.iter().map(|d| d.to_string()).collect();
        parts.extend(b.excluded.iter().map(|d| format!("~{}", d)));
        if !canonical {
            r.shuffle(&mut parts);
        }
        let key = if canonical || r.chance(1, 2) { "domain" } else { "from" };
        opts.push(format!("{}={}", key, parts.join("|")));
    }
    if badfilter {
        opts.push("badfilter".into());
    }
    if !canonical {
        r.shuffle(&mut opts);
    }
    let mut s = String::new();
    if b.exception {
        s.push_str("@@");
    }
    s.push_str(&b.pattern);
    if !opts.is_empty() {
        s.push('$');
        s.push_str(&opts.join(","));
    }
    s
}

const BF_TYPES: &[&str] = &["script", "image", "xmlhttprequest", "stylesheet", "subdocument", "font", "media", "ping"];
const BF_DOMAINS: &[&str] = &["a.com", "example.org", "track.io", "b.co.uk"];

fn gen_base(r: &mut Rng) -> BaseRule {
    let host = r.ps(gen::HOSTS);
    let t1 = r.ps(gen::TOK);
    let t2 = r.ps(gen::TOK);
    let url = format!("https://{}/{}/{}.js", host, t1, t2);
    let pattern = match r.below(6) {
        0 => format!("||{}^", host),
        1 => format!("||{}/{}/", host, t1),
        2 => format!("/{}/{}.", t1, t2),
        3 => format!("|https://{}/{}", host, t1),
        4 => format!("/{}/*.js", t1),
        _ => format!("/{}/{}.js|", t1, t2),
    };
    let mut types = vec![];
    let nt = r.below(3);
    for _ in 0..nt {
        let t = *r.pick(BF_TYPES);
        if !types.contains(&t) {
            types.push(t);
        }
    }
    // the sample request is of type script from a third-party initiator in BF_DOMAINS[0]
    if !types.is_empty() && !types.contains(&"script") {
        types.push("script");
    }
    let party = match r.below(3) {
        0 => Some(true),
        _ => None,
    };
    let mut included = vec![];
    let mut excluded = vec![];
    if r.chance(1, 3) {
        included.push(BF_DOMAINS[0]);
        if r.chance(1, 2) {
            included.push(BF_DOMAINS[1]);
        }
    }
    if r.chance(1, 4) {
        excluded.push(BF_DOMAINS[2]);
    }
    BaseRule {
        exception: false,
        pattern,
        types,
        party,
        included,
        excluded,
        sample_url: url,
    }
}

/// A rule differing from `b` in exactly one matching aspect (semantically, not just in spelling).
fn one_aspect_different(r: &mut Rng, b: &BaseRule) -> (BaseRule, &'static str) {
    let mut z = b.clone();
    loop {
        match r.below(5) {
            0 => {
                // add a positive type that changes the type set
                let t = *r.pick(BF_TYPES);
                if z.types.is_empty() {
                    z.types.push(t);
                    return (z, "type-set");
                } else if !z.types.contains(&t) {
                    z.types.push(t);
                    return (z, "type-set");
                }
            }
            1 => {
                z.party = match z.party {
                    None => Some(true),
                    Some(true) => Some(false),
                    Some(false) => None,
                };
                return (z, "party");
            }
            2 => {
                if !z.included.contains(&BF_DOMAINS[3]) {
                    z.included.push(BF_DOMAINS[3]);
                    return (z, "included-domain");
                }
            }
            3 => {
                if !z.excluded.contains(&BF_DOMAINS[3]) {
                    z.excluded.push(BF_DOMAINS[3]);
                    return (z, "excluded-domain");
                }
            }
            _ => {
                // one pattern character (not case-only, not www-only)
                let bytes = z.pattern.clone().into_bytes();
                let idxs: Vec<usize> = bytes.iter().enumerate().filter(|(_, c)| c.is_ascii_lowercase()).map(|(i, _)| i).collect();
                if let Some(&i) = idxs.get(r.below(idxs.len().max(1))) {
                    let mut nb = bytes.clone();
                    nb[i] = if nb[i] == b'q' { b'z' } else { b'q' };
                    z.pattern = String::from_utf8(nb).unwrap();
                    return (z, "pattern-character");
                }
            }
        }
    }
}

fn badfilter(ctx: &mut Ctx) {
    let sub = "badfilter";
    let cases = ctx.n(60_000, 3_000_000);
    for idx in 0..cases {
        if ctx.stop() {
            break;
        }
        if !ctx.begin_case(sub, idx) {
            continue;
        }
        let seed = ctx.seed;
        let out = guarded(|| {
            let mut r = Rng::for_case(seed, "c04.bad", idx);
            let b = gen_base(&mut r);
            let canon = r.chance(1, 2);
            let y = spell(&mut r, &b, false, canon);
            let twin = spell(&mut r, &b, true, false);
            let (zb, aspect) = one_aspect_different(&mut r, &b);
            let near = spell(&mut r, &zb, true, false);
            let opts = ParseOptions::default();
            let optimize = r.chance(1, 2);
            let rq = Request::new(&b.sample_url, &format!("https://{}/", BF_DOMAINS[0]), "script").ok()?;
            let noise: Vec<String> = (0..r.below(4)).map(|_| gen_rule(&mut r, &Profile::PLAIN)).collect();
            let alone = build_engine(&[y.clone()], opts, true, optimize).check_network_request(&rq).matched;
            let mk = |extra: &str, r: &mut Rng| {
                let mut l = noise.clone();
                l.push(y.clone());
                l.push(extra.to_string());
                r.shuffle(&mut l);
                l
            };
            let l_twin = mk(&twin, &mut r);
            let l_near = mk(&near, &mut r);
            let noise_blocks = build_engine(&noise, opts, true, optimize).check_network_request(&rq).matched;
            let mut base = noise.clone();
            base.push(y.clone());
            let base_blocks = build_engine(&base, opts, true, optimize).check_network_request(&rq).matched;
            let with_twin = build_engine(&l_twin, opts, true, optimize).check_network_request(&rq).matched;
            let with_near = build_engine(&l_near, opts, true, optimize).check_network_request(&rq).matched;
            let lone = build_engine(&[twin.clone()], opts, true, optimize).check_network_request(&rq).matched;
            Some(json!({"y": y, "respelt_badfilter_twin": twin, "one_aspect_different_badfilter": near, "aspect": aspect, "noise": noise,
                "url": b.sample_url, "y_alone_blocks": alone, "noise_blocks": noise_blocks, "noise_plus_y_blocks": base_blocks,
                "blocked_with_twin": with_twin, "blocked_with_near_twin": with_near, "lone_badfilter_blocks": lone}))
        });
        match out {
            Err(sig) => ctx.violation(sub, idx, &format!("C04:{}", sig), json!({})),
            Ok(None) => {}
            Ok(Some(d)) => {
                let g = |k: &str| d[k].as_bool().unwrap_or(false);
                ctx.evals(3);
                if g("lone_badfilter_blocks") {
                    ctx.violation(sub, idx, "C04:badfilter:lone-badfilter-matches", d.clone());
                }
                if g("y_alone_blocks") && !g("noise_blocks") && g("noise_plus_y_blocks") {
                    ctx.nontrivial(fnv(&d.to_string()));
                    ctx.obs("badfilter_pairs_where_y_blocks_alone", 1);
                    if g("blocked_with_twin") {
                        ctx.violation(sub, idx, "C04:badfilter:respelt-twin-does-not-cancel", d.clone());
                    }
                    if !g("blocked_with_near_twin") {
                        let aspect = d["aspect"].as_str().unwrap_or("?").to_string();
                        ctx.violation(sub, idx, &format!("C04:badfilter:different-rule-cancelled:{}", aspect), d.clone());
                    }
                    ctx.sample_tagged("badfilter", || d);
                }
            }
        }
    }
}
