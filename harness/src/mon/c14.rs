//! C14 — removeparam rewrites remove exactly the named parameters and nothing else.
//!
//! Independent rewriter on the raw URL (oracle::removeparam) driven by the set of *matching*
//! removeparam rules found by O-scan, plus an oracle-free preservation monitor: the output must be
//! obtainable from the input by deleting whole `&`-separated query pieces.

use crate::gen;
use crate::mon::common::{ask, build_engine, diff, verdict_json};
use crate::oracle::removeparam::is_piece_deletion;
use crate::oracle::resources::ResModel;
use crate::oracle::scan::Scan;
use crate::report::{guarded, Ctx};
use crate::rng::{fnv, Rng};
use adblock::blocker::{Blocker, BlockerOptions};
use adblock::lists::{parse_filters, ParseOptions};
use adblock::resources::ResourceStorage;
use adblock::request::Request;
use serde_json::json;
use std::collections::HashSet;

const KEYS: &[&str] = &["ad", "foo", "x1", "utm_source", "fbclid", "a-b", "Ad", "ad2", "a", "fo", "utm", "", "é", "k%20"];
const VALS: &[&str] = &["1", "", "abc", "a=b", "x%26y", "é", "?", "1#", " ", "v&"];

fn gen_query(r: &mut Rng) -> String {
    let n = r.below(7);
    let mut parts: Vec<String> = vec![];
    for _ in 0..n {
        let k = r.ps(KEYS);
        match r.below(6) {
            0 => parts.push(k.to_string()),                 // key only
            1 => parts.push(format!("{}=", k)),             // empty value
            2 => parts.push(String::new()),                 // empty piece => "&&"
            _ => {
                let v = r.ps(VALS).replace('&', "%26").replace('#', "%23");
                parts.push(format!("{}={}", k, v));
            }
        }
    }
    parts.join("&")
}

fn gen_url(r: &mut Rng, host: &str, path: &str) -> String {
    let mut u = format!("https://{}/{}", host, path);
    match r.below(10) {
        0 => {}                                   // no query at all
        1 => u.push('?'),                         // bare '?'
        _ => {
            u.push('?');
            u.push_str(&gen_query(r));
        }
    }
    match r.below(6) {
        0 => u.push_str("#frag"),
        1 => u.push_str(&format!("#x?{}", gen_query(r))), // '?' inside the fragment
        2 => u.push_str("#a#b"),
        3 => u.push('#'),
        _ => {}
    }
    u
}

/// Do the type options of a removeparam rule, read from its text, admit this request type?
/// (no positive type: document, subdocument and xhr; otherwise exactly the positive ones; negated
/// types never)
fn admits(line: &str, ty: &str) -> bool {
    let canon = |t: &str| match t {
        "xhr" | "xmlhttprequest" => "xmlhttprequest",
        "subdocument" | "frame" | "sub_frame" => "subdocument",
        "document" | "doc" | "main_frame" => "document",
        "script" => "script",
        "image" => "image",
        _ => "other",
    };
    let opts = line.rsplit_once('$').map(|x| x.1).unwrap_or("");
    let (mut pos, mut neg) = (vec![], vec![]);
    for o in opts.split(',') {
        let (n, name) = match o.strip_prefix('~') {
            Some(x) => (true, x),
            None => (false, o),
        };
        if matches!(name, "document" | "xhr" | "xmlhttprequest" | "subdocument" | "script" | "image") {
            if n { neg.push(canon(name)) } else { pos.push(canon(name)) }
        }
    }
    let t = canon(ty);
    if neg.contains(&t) {
        return false;
    }
    if pos.is_empty() {
        matches!(t, "document" | "subdocument" | "xmlhttprequest")
    } else {
        pos.contains(&t)
    }
}

/// Keys of the query pieces present in `url` and missing from `out` (multiset difference).
fn removed_keys(url: &str, out: &str) -> Vec<String> {
    let q = |u: &str| -> Vec<String> {
        let head = u.split('#').next().unwrap_or("");
        match head.split_once('?') {
            Some((_, q)) => q.split('&').map(|s| s.to_string()).collect(),
            None => vec![],
        }
    };
    let mut rest = q(out);
    let mut gone = vec![];
    for piece in q(url) {
        match rest.iter().position(|x| *x == piece) {
            Some(i) => {
                rest.remove(i);
            }
            None if piece.is_empty() => {} // an empty piece vanishes together with the `?`
            None => gone.push(piece.split('=').next().unwrap_or("").to_string()),
        }
    }
    gone
}

fn gen_rules(r: &mut Rng, host: &str, path_tok: &str) -> Vec<String> {
    let n = 1 + r.below(5);
    let mut rules = vec![];
    for _ in 0..n {
        let pat = match r.below(6) {
            0 => format!("||{}^", host),
            1 => format!("||{}/{}", host, path_tok),
            2 => String::new(),
            3 => format!("/{}", path_tok),
            4 => "*".to_string(),
            _ => format!("||{}^", r.ps(gen::HOSTS)),
        };
        let mut opts = vec![format!("removeparam={}", r.ps(&["ad", "foo", "x1", "utm_source", "fbclid", "a-b", "Ad", "a"]))];
        if r.chance(1, 4) {
            opts.push(r.ps(&["document", "xhr", "subdocument", "script", "~xhr", "image", "third-party", "~third-party"]).into());
        }
        if r.chance(1, 6) {
            // positive and negated type options together
            let t = r.ps(&["document", "xhr", "subdocument", "script", "image"]);
            let n = r.ps(&["~xhr", "~subdocument", "~image", "~script", "~document"]);
            if !opts.iter().any(|o| o.trim_start_matches('~') == t || o == n || o.trim_start_matches('~') == n.trim_start_matches('~')) && t != n.trim_start_matches('~') {
                opts.push(t.into());
                opts.push(n.into());
            }
        }
        if r.chance(1, 6) {
            let n = 1 + r.below(3);
            let ds: Vec<&str> = (0..n).map(|_| r.ps(gen::HOSTS)).collect();
            opts.push(format!("domain={}", ds.join("|")));
        }
        if r.chance(1, 8) {
            // still a removeparam rule: it rewrites, it does not block
            opts.push("important".into());
        }
        if r.chance(1, 2) {
            r.shuffle(&mut opts);
        }
        rules.push(format!("{}${}", pat, opts.join(",")));
    }
    // a $badfilter twin of one removeparam rule, next to a sibling that differs only in the
    // parameter it names (the twin cancels exactly the rule with the identical text)
    if r.chance(1, 6) && !rules.is_empty() {
        let victim = r.pick(&rules).clone();
        if let Some((head, opts)) = victim.rsplit_once('$') {
            let sibling_opts: Vec<String> = opts.split(',').map(|o| if o.starts_with("removeparam=") { format!("removeparam={}", r.ps(&["ad", "foo", "x1", "utm_source"])) } else { o.to_string() }).collect();
            rules.push(format!("{}${}", head, sibling_opts.join(",")));
        }
        rules.push(format!("{},badfilter", victim));
    }
    match r.below(6) {
        0 => rules.push(format!("||{}^$important", host)),
        1 => rules.push(format!("||{}^", host)),
        2 => rules.push(format!("@@||{}^", host)),
        _ => {}
    }
    // redirects (resource loaded / missing) must not influence the rewrite
    match r.below(6) {
        0 => rules.push(format!("||{}^$redirect=noop.js", host)),
        1 => rules.push(format!("||{}^$redirect-rule=1x1.gif", host)),
        2 => rules.push(format!("/{}$redirect=missing.js", path_tok)),
        _ => {}
    }
    r.shuffle(&mut rules);
    rules
}

pub fn run(ctx: &mut Ctx) {
    let sub = "removeparam";
    let cases = ctx.n(600_000, 60_000_000);
    let resdefs = gen::standard_resources();
    let res = ResModel { defs: &resdefs };
    for idx in 0..cases {
        if ctx.stop() {
            break;
        }
        if !ctx.begin_case(sub, idx) {
            continue;
        }
        let seed = ctx.seed;
        let out = guarded(|| {
            let mut r = Rng::for_case(seed, "c14", idx);
            let host = r.ps(gen::HOSTS);
            let ptok = r.ps(gen::TOK);
            let rules = gen_rules(&mut r, host, ptok);
            // text-level reading of $badfilter (independent of the crate's rule ids): a line
            // `R,badfilter` cancels every line whose text is exactly R, and never matches itself
            // (the parser reads `||www.host` as `||host`, so those two spellings are one rule)
            // ... and option order does not matter). Which differently spelled type options make "the
            // same rule" is not settled by the statement (the crate pairs by type mask), so a case in
            // which some rule equals a $badfilter line up to its type options only is not judged.
            let split = |l: &str| -> (String, Vec<String>, Vec<String>) {
                let l = l.replace("||www.", "||");
                match l.rsplit_once('$') {
                    Some((pat, opts)) => {
                        let is_type = |o: &str| matches!(o.trim_start_matches('~'), "document" | "xhr" | "xmlhttprequest" | "subdocument" | "script" | "image");
                        let mut other: Vec<String> = opts.split(',').filter(|o| !is_type(o) && *o != "badfilter").map(|o| o.to_string()).collect();
                        let mut types: Vec<String> = opts.split(',').filter(|o| is_type(o)).map(|o| o.to_string()).collect();
                        other.sort();
                        types.sort();
                        (format!("{}${}", pat, other.join(",")), types, vec![])
                    }
                    None => (l, vec![], vec![]),
                }
            };
            let bad: Vec<(String, Vec<String>)> = rules.iter().filter(|l| l.ends_with(",badfilter")).map(|l| { let (a, b, _) = split(l); (a, b) }).collect();
            let ambiguous = rules.iter().filter(|l| !l.ends_with(",badfilter")).any(|l| {
                let (a, b, _) = split(l);
                bad.iter().any(|(ba, bb)| *ba == a && *bb != b)
            });
            if ambiguous {
                return vec![];
            }
            let effective: Vec<String> = rules
                .iter()
                .filter(|l| !l.ends_with(",badfilter"))
                .filter(|l| {
                    let (a, b, _) = split(l);
                    !bad.iter().any(|(ba, bb)| *ba == a && *bb == b)
                })
                .cloned()
                .collect();
            let opts = ParseOptions::default();
            let e = build_engine(&rules, opts, true, r.chance(1, 2));
            let mut scan = Scan::new(&effective, opts);
            let tags = HashSet::new();
            let mut out = vec![];
            let mut asked: Vec<(String, String, &str, Option<String>, usize)> = vec![];
            for _ in 0..3 {
                let url = gen_url(&mut r, host, ptok);
                let source = if r.chance(1, 2) { format!("https://{}/", host) } else { format!("https://{}/", r.ps(gen::HOSTS)) };
                let ty = r.ps(&["document", "xhr", "subdocument", "script", "image", "other", "document", "xhr"]);
                let rq = match Request::new(&url, &source, ty) {
                    Ok(rq) => rq,
                    Err(_) => continue,
                };
                let a = ask(&e, &rq);
                let v = scan.verdict(&rq, &url, &tags, &res);
                let d: Vec<&str> = diff(&a, &v).into_iter().filter(|f| matches!(*f, "rewritten_url" | "important")).collect();
                let has_query = url.split('#').next().map(|h| h.contains('?') && !h.ends_with('?')).unwrap_or(false);
                let nt = v.removeparam_hits >= 1 && has_query;
                let mut sigs: Vec<String> = vec![];
                if !d.is_empty() {
                    sigs.push(format!("C14:mismatch:{}", d.join("+")));
                }
                if let Some(out_url) = &a.rewritten {
                    if !is_piece_deletion(&url, out_url) {
                        sigs.push("C14:rewrite-is-not-a-deletion-of-whole-parameters".into());
                    }
                    if out_url == &url {
                        sigs.push("C14:rewrite-reported-but-nothing-removed".into());
                    }
                    if a.important {
                        sigs.push("C14:rewrite-reported-for-important-block".into());
                    }
                    // every removed parameter needs a rule naming it whose type options, read
                    // from the rule text, admit this request type
                    for k in removed_keys(&url, out_url) {
                        let named = effective.iter().any(|l| {
                            l.rsplit_once('$').map(|x| x.1.split(',').any(|o| o == format!("removeparam={}", k))).unwrap_or(false) && admits(l, ty)
                        });
                        if !named {
                            sigs.push("C14:parameter-removed-without-a-rule-admitting-this-request-type".into());
                        }
                    }
                }
                let h = fnv(&format!("{:?}|{}|{}|{}", rules, url, source, ty));
                let detail = json!({"rules": rules, "url": url, "source": source, "type": ty, "engine": a.to_json(), "oracle": verdict_json(&v),
                    "matching_removeparam_rules": v.removeparam_hits});
                // the multi-engine entry point: the rewrite does not depend on what an earlier
                // engine decided (an important block in this engine still suppresses it)
                for (prev, force) in [(true, false), (true, true), (false, true)] {
                    let s = e.check_network_request_subset(&rq, prev, force);
                    if s.rewritten_url != a.rewritten {
                        sigs.push("C14:rewrite-depends-on-subset-flags".into());
                    }
                }
                asked.push((url.clone(), source.clone(), ty, a.rewritten.clone(), out.len()));
                out.push((sigs, nt, h, detail, a.rewritten.is_some()));
            }
            // Blocker level: the same rules on a live Blocker, before and after an explicit optimize()
            let (nf, _) = parse_filters(&rules, true, opts);
            let mut blocker = Blocker::new(nf, &BlockerOptions { enable_optimizations: false });
            let storage = ResourceStorage::from_resources(resdefs.iter().map(|d| d.to_resource()));
            // ... and one that received the rules one add_filter at a time (not possible with $badfilter)
            if !rules.iter().any(|l| l.contains("badfilter")) {
                let mut inc = Blocker::new(vec![], &BlockerOptions { enable_optimizations: false });
                for line in &rules {
                    let (mut one, _) = parse_filters([line], true, opts);
                    if let Some(f) = one.pop() {
                        let _ = inc.add_filter(f);
                    }
                }
                for (url, source, ty, want, slot) in &asked {
                    let rq = Request::new(url, source, ty).unwrap();
                    let got = inc.check(&rq, &storage).rewritten_url;
                    if &got != want {
                        out[*slot].0.push("C14:incrementally-built-blocker-rewrites-differently".to_string());
                    }
                }
            }
            for phase in ["before-optimize", "after-optimize"] {
                for (url, source, ty, want, slot) in &asked {
                    let rq = Request::new(url, source, ty).unwrap();
                    let got = blocker.check(&rq, &storage).rewritten_url;
                    if &got != want {
                        out[*slot].0.push(format!("C14:live-blocker-rewrite-differs-from-engine:{}", phase));
                        if let Some(o) = out[*slot].3.as_object_mut() {
                            o.insert(format!("blocker_rewrite_{}", phase), json!(got));
                        }
                    }
                }
                blocker.optimize();
            }
            out
        });
        match out {
            Err(sig) => ctx.violation(sub, idx, &format!("C14:{}", sig), json!({})),
            Ok(evs) => {
                for (sigs, nt, h, detail, rewritten) in evs {
                    ctx.eval();
                    if rewritten {
                        ctx.obs("rewrites_observed", 1);
                    }
                    if nt {
                        ctx.nontrivial(h);
                    }
                    if sigs.is_empty() {
                        if nt && rewritten {
                            ctx.sample(|| detail);
                        }
                    } else {
                        for s in sigs {
                            ctx.violation(sub, idx, &s, detail.clone());
                        }
                    }
                }
            }
        }
    }
}
