//! C19 — thread-safe build: concurrent queries equal sequential ones; the thread-safe and
//! single-thread builds give identical answers.
//!
//! This module compiles in both configurations. In the default (single-thread) build it only
//! serves as the *peer* of the configuration differential (`C19PEER` prints answer digests). In
//! the thread-safe build (`--no-default-features`) it runs:
//!  (diff)  identical seeded batteries through both builds (the peer binary is spawned)
//!  (conc)  N threads x M mixed queries on one shared `&Engine` with an aggressive discard policy;
//!          every answer is compared with the answer computed sequentially beforehand; yields and
//!          short sleeps are injected through the pre-acquire hook (between critical sections);
//!          the acquisition order is recorded through the H5 hook

use crate::gen::{self, gen_cluster, gen_request, gen_rule, Profile};
use crate::gen_cos::{gen_cos_rule, PAGES, SELS};
use crate::mon::c08::{canonical_script, scriptlet_resources};
use crate::mon::common::ask;
#[allow(unused_imports)]
use crate::report::{guarded, Ctx};
use crate::rng::{fnv, Rng};
use adblock::lists::ParseOptions;
use adblock::regex_manager::RegexManagerDiscardPolicy;
use adblock::request::Request;
use adblock::Engine;
use serde_json::json;
use std::time::Duration;

const P: Profile = Profile {
    exceptions: true,
    important: true,
    csp: true,
    removeparam: true,
    redirect: true,
    badfilter: false,
    tags: true,
    generichide: true,
    full_regex: true,
    domains: true,
};

#[derive(Clone, Debug)]
pub enum Q {
    Net(String, String, &'static str),
    Cos(String),
}

fn gen_engine_rules(r: &mut Rng) -> Vec<String> {
    let mut rules = vec![];
    for _ in 0..2 + r.below(3) {
        rules.extend(gen_cluster(r, &P));
    }
    for _ in 0..4 + r.below(8) {
        rules.push(gen_rule(r, &P));
    }
    // guaranteed regex rules
    for t in ["advert", "banner", "track"] {
        rules.push(format!("/{}*zz^", t));
        rules.push(format!("/\\/{}\\/[a-z]\\d?/", t));
        rules.push(format!("||ads.net^*{}", t));
    }
    for _ in 0..3 + r.below(5) {
        rules.push(gen_cos_rule(r, SELS, true).line);
    }
    // pages with differing generichide verdicts (plain and regex-backed), plus generic selectors
    // that the verdict switches on and off
    for (host, _) in PAGES.iter() {
        match r.below(4) {
            0 => rules.push(format!("@@||{}^$generichide", host)),
            1 => rules.push(format!("@@||{}^*p$generichide", host)),
            _ => {}
        }
    }
    // csp rules scoped by initiator site (indexed under the site, not under a URL token)
    for (host, _) in PAGES.iter() {
        match r.below(5) {
            0 => rules.push(format!("$csp=worker-src 'none',domain={}", host)),
            1 => rules.push(format!("||{}^$csp=script-src 'self',domain={}|other.org", host, host)),
            _ => {}
        }
    }
    rules.push("##div[data-generic-ad]".to_string());
    rules.push("##.generic-only > span".to_string());
    r.shuffle(&mut rules);
    rules
}

fn gen_queries(r: &mut Rng, rules: &[String], n: usize) -> Vec<Q> {
    // one batch in three is cosmetic-only, cycling over all pages: concurrent per-site queries for
    // hosts with different answers collide on whatever state the engine shares between them
    let cosmetic_only = r.chance(1, 3);
    (0..n)
        .map(|k| {
            if cosmetic_only {
                Q::Cos(format!("https://{}/p", PAGES[k % PAGES.len()].0))
            } else if r.chance(1, 5) {
                Q::Cos(format!("https://{}/p", r.pick(PAGES).0))
            } else if r.chance(1, 6) {
                // a document or frame loaded by its own site
                let h = r.pick(PAGES).0;
                Q::Net(format!("https://{}/p", h), format!("https://{}/", h), r.ps(&["document", "subdocument"]))
            } else {
                let q = gen_request(r, rules);
                Q::Net(q.url, q.source, q.rtype)
            }
        })
        .collect()
}

fn build(rules: &[String], optimize: bool, policy: u8) -> Engine {
    let mut e = Engine::from_rules_parametrised(rules, ParseOptions::default(), true, optimize);
    e.use_resources(scriptlet_resources().iter().map(|r| r.to_resource()));
    e.use_tags(&["t1", "t3"]);
    match policy {
        0 => e.set_regex_discard_policy(RegexManagerDiscardPolicy {
            cleanup_interval: Duration::from_nanos(1),
            discard_unused_time: Duration::from_nanos(1),
        }),
        1 => e.set_regex_discard_policy(RegexManagerDiscardPolicy {
            cleanup_interval: Duration::from_micros(50),
            discard_unused_time: Duration::from_micros(20),
        }),
        _ => {}
    }
    e
}

pub fn answer(e: &Engine, q: &Q) -> String {
    match q {
        Q::Net(u, s, t) => match Request::new(u, s, t) {
            Ok(rq) => {
                // plain entry point, plus the multi-engine one as a later engine in a chain sees it
                let s2 = e.check_network_request_subset(&rq, true, false);
                format!("{}|chained:{}{}{:?}{:?}{}", ask(e, &rq).digest(), s2.matched as u8, s2.important as u8, s2.redirect, s2.rewritten_url, s2.exception.is_some() as u8)
            }
            Err(_) => "unparsable".to_string(),
        },
        Q::Cos(u) => {
            let r = e.url_cosmetic_resources(u);
            let mut h: Vec<&String> = r.hide_selectors.iter().collect();
            h.sort();
            let mut x: Vec<&String> = r.exceptions.iter().collect();
            x.sort();
            let mut p: Vec<&String> = r.procedural_actions.iter().collect();
            p.sort();
            let mut c = e.hidden_class_id_selectors(["ad", "ad2", "c1"], ["ban"], &r.exceptions);
            c.sort();
            format!("{:?}|{:?}|{:?}|{}|{}|{:?}", h, x, p, canonical_script(&r.injected_script), r.generichide, c)
        }
    }
}

fn case_material(seed: u64, idx: u64, nq: usize) -> (Vec<String>, Vec<Q>, bool, u8) {
    let mut r = Rng::for_case(seed, "c19", idx);
    let mut rules = gen_engine_rules(&mut r);
    let mut qs = gen_queries(&mut r, &rules, nq);
    let mut optimize = r.chance(1, 2);
    if idx % 10 == 3 {
        // a supplementary list without exceptions or important rules (redirects, rewrites and
        // plain blocks only)
        rules.retain(|l| !l.starts_with("@@") && !l.contains("important"));
    }
    // (every 40th differential case; every 160th concurrent batch, which is 400 queries x N threads)
    if (nq <= 24 && idx % 40 == 13) || (nq > 24 && nq >= 400 && idx % 160 == 13) {
        // heavy case: hundreds of near-twin wildcard rules that share their only indexable token
        // (one big fused regex set when optimised) and one large bounded-repetition regex rule;
        // both builds must compile and answer them alike
        let n = 150 + r.below(350);
        let exc = r.chance(1, 3);
        for i in 0..n {
            rules.push(format!("{}/adframe/*zone{}^", if exc { "@@" } else { "" }, i));
        }
        if exc {
            rules.push("/adframe/".to_string());
        }
        rules.push(r"/^https?:\/\/[a-z0-9-]{1,63}\.example\.net\/([a-z0-9_-]{1,64}\/){1,48}pixel\.gif/".to_string());
        for k in [0usize, 17, n - 1, n + 5] {
            qs.push(Q::Net(format!("https://cdn.example.net/adframe/v2/zone{}?cb=1", k), "https://o.org/".into(), "script"));
        }
        qs.push(Q::Net("https://cdn.example.net/a/b_c/d-e/pixel.gif".into(), "https://o.org/".into(), "image"));
        qs.push(Q::Net("https://cdn.example.net/static/zone17?cb=1".into(), "https://o.org/".into(), "script"));
        optimize = true;
    }
    (rules, qs, optimize, (idx % 3) as u8)
}

/// Peer mode (any configuration): print one digest per differential case.
pub fn peer(ctx: &mut Ctx) {
    let from: u64 = ctx.extra.get("from").and_then(|s| s.parse().ok()).unwrap_or(0);
    let to: u64 = ctx.extra.get("to").and_then(|s| s.parse().ok()).unwrap_or(0);
    let detail = ctx.extra.contains_key("detail");
    for idx in from..to {
        let (rules, qs, optimize, policy) = case_material(ctx.seed, idx, 24);
        let e = build(&rules, optimize, policy);
        let answers: Vec<String> = qs.iter().map(|q| answer(&e, q)).collect();
        if detail {
            println!("{}", json!({"case": idx, "answers": answers}));
        } else {
            println!("{} {:x}", idx, fnv(&answers.join("\n")));
        }
    }
    std::process::exit(0);
}

#[cfg(feature = "unsync")]
pub fn run(ctx: &mut Ctx) {
    ctx.note("this binary is the single-thread configuration; C19 must be run from the native-sync build".into());
}

#[cfg(not(feature = "unsync"))]
pub fn run(ctx: &mut Ctx) {
    if ctx.extra.get("mode").map(|s| s.as_str()) != Some("conc-only") {
        differential(ctx);
    }
    if ctx.extra.get("mode").map(|s| s.as_str()) != Some("diff-only") {
        sync_impl::concurrent(ctx);
        sync_impl::rounds(ctx);
    }
}

#[cfg(not(feature = "unsync"))]
fn differential(ctx: &mut Ctx) {
    use std::process::Command;
    let sub = "diff";
    let peer = match ctx.extra.get("peer") {
        Some(p) => p.clone(),
        None => {
            ctx.note("no peer binary given; configuration differential skipped".into());
            return;
        }
    };
    let cases = ctx.n(4_000, 80_000);
    // this shard's contiguous block
    let per = (cases + ctx.nshards as u64 - 1) / ctx.nshards as u64;
    let from = per * ctx.shard as u64;
    let to = (from + per).min(cases);
    if ctx.only_case.is_some() {
        return;
    }
    let out = Command::new(&peer)
        .arg("C19PEER")
        .arg("--seed")
        .arg(ctx.seed.to_string())
        .arg("--set")
        .arg(format!("from={}", from))
        .arg("--set")
        .arg(format!("to={}", to))
        .output();
    let peer_lines: std::collections::HashMap<u64, String> = match out {
        Ok(o) if o.status.success() => String::from_utf8_lossy(&o.stdout)
            .lines()
            .filter_map(|l| {
                let mut it = l.split(' ');
                Some((it.next()?.parse().ok()?, it.next()?.to_string()))
            })
            .collect(),
        _ => {
            ctx.note("peer binary failed to run".into());
            ctx.obs("peer_failures", 1);
            return;
        }
    };
    for idx in from..to {
        if ctx.stop() {
            break;
        }
        ctx.report.cases_run += 1;
        let seed = ctx.seed;
        let r = guarded(|| {
            let (rules, qs, optimize, policy) = case_material(seed, idx, 24);
            let e = build(&rules, optimize, policy);
            let answers: Vec<String> = qs.iter().map(|q| answer(&e, q)).collect();
            (rules, qs, answers)
        });
        match r {
            Err(sig) => ctx.violation(sub, idx, &format!("C19:{}", sig), json!({})),
            Ok((rules, qs, answers)) => {
                ctx.evals(answers.len() as u64);
                let mine = format!("{:x}", fnv(&answers.join("\n")));
                if answers.iter().any(|a| !a.starts_with("000|None|None|None")) {
                    ctx.nontrivial(fnv(&format!("{:?}", rules)));
                }
                match peer_lines.get(&idx) {
                    None => ctx.obs("peer_missing_cases", 1),
                    Some(theirs) if *theirs == mine => {
                        if idx % 97 == 0 {
                            ctx.sample_tagged("diff", || json!({"rules": rules, "queries": qs.iter().take(4).map(|q| format!("{:?}", q)).collect::<Vec<_>>(), "digest_both_configurations": mine}));
                        }
                    }
                    Some(_) => {
                        // fetch the peer's full answers for the witness
                        let detail = Command::new(&peer)
                            .arg("C19PEER")
                            .arg("--seed")
                            .arg(seed.to_string())
                            .arg("--set")
                            .arg(format!("from={}", idx))
                            .arg("--set")
                            .arg(format!("to={}", idx + 1))
                            .arg("--set")
                            .arg("detail=1")
                            .output()
                            .ok()
                            .map(|o| String::from_utf8_lossy(&o.stdout).to_string())
                            .unwrap_or_default();
                        let theirs: Vec<String> = serde_json::from_str::<serde_json::Value>(detail.trim())
                            .ok()
                            .and_then(|v| v["answers"].as_array().cloned())
                            .map(|a| a.iter().map(|x| x.as_str().unwrap_or("").to_string()).collect())
                            .unwrap_or_default();
                        let first = answers.iter().zip(theirs.iter()).position(|(a, b)| a != b);
                        ctx.violation(
                            sub,
                            idx,
                            "C19:configurations-disagree",
                            json!({"rules": rules, "first_differing_query": first.map(|i| format!("{:?}", qs[i])),
                                "thread_safe_build": first.map(|i| answers[i].clone()), "single_thread_build": first.and_then(|i| theirs.get(i).cloned())}),
                        );
                    }
                }
            }
        }
    }
}

#[cfg(not(feature = "unsync"))]
mod sync_impl {
    use super::*;
    use adblock::verif::{self, Event};
    use std::cell::Cell;
    use std::collections::BTreeSet;
    use std::sync::atomic::{AtomicU64, Ordering};
    use std::sync::mpsc;

    thread_local! {
        static DELAY_RNG: Cell<u64> = Cell::new(0x9E3779B97F4A7C15);
    }
    static DELAY_SEED: AtomicU64 = AtomicU64::new(1);
    static DELAY_MODE: AtomicU64 = AtomicU64::new(0);

    fn pre_acquire() {
        let mode = DELAY_MODE.load(Ordering::Relaxed);
        if mode == 0 {
            return;
        }
        let x = DELAY_RNG.with(|c| {
            let mut z = c.get().wrapping_add(DELAY_SEED.load(Ordering::Relaxed)).wrapping_add(verif::thread_index() as u64);
            z ^= z << 13;
            z ^= z >> 7;
            z ^= z << 17;
            c.set(z);
            z
        });
        match (mode, x % 8) {
            (_, 0) | (_, 1) => std::thread::yield_now(),
            (2, 2) => std::thread::sleep(Duration::from_micros(1 + x % 40)),
            (2, 3) => {
                for _ in 0..(x % 2000) {
                    std::hint::spin_loop();
                }
            }
            _ => {}
        }
    }

    /// Concurrent query batches alternating with state changes (tag set assignment/union/
    /// difference, discard-policy change, serialize+reload into the same engine), the state
    /// change being made by yet another thread. After every change, each thread's answers must
    /// equal those of a fresh engine built sequentially for the model state.
    pub fn rounds(ctx: &mut Ctx) {
        let sub = "rounds";
        let tsan = ctx.extra.contains_key("tsan");
        if ctx.extra.contains_key("miri") {
            return;
        }
        verif::set_pre_acquire(Some(Box::new(pre_acquire)));
        let cases = if tsan { ctx.n(24, 240) } else { ctx.n(480, 12_000) };
        for idx in 0..cases {
            if ctx.stop() {
                break;
            }
            if !ctx.begin_case(sub, idx) {
                continue;
            }
            let seed = ctx.seed;
            let mut r = Rng::for_case(seed ^ 0xC19, "c19.rounds", idx);
            let nthreads = [3usize, 8, 5, 12][(idx % 4) as usize];
            DELAY_SEED.store(seed ^ idx, Ordering::Relaxed);
            DELAY_MODE.store(idx % 3, Ordering::Relaxed);
            let mut rules = gen_engine_rules(&mut r);
            // tagged regex twins: switching tags frees and re-allocates these rules
            for k in 1..=4 {
                rules.push(format!("/track*r{}^$tag=t{}", k, k));
                rules.push(format!("/\\/banner\\/[{}]x/$tag=t{}", k, k));
                rules.push(format!("/advert*q{}|$tag=t{},script", k, (k % 4) + 1));
            }
            r.shuffle(&mut rules);
            let mut qs = gen_queries(&mut r, &rules, if tsan { 40 } else { 120 });
            for k in 1..=4 {
                qs.push(Q::Net(format!("https://x.com/track/zr{}/", k), "https://o.org/".into(), "image"));
                qs.push(Q::Net(format!("https://x.com/banner/{}x", k), "https://o.org/".into(), "image"));
                qs.push(Q::Net(format!("https://x.com/advert-q{}", k), "https://o.org/".into(), "script"));
            }
            r.shuffle(&mut qs);
            let optimize = r.chance(1, 2);
            let policy = [2u8, 2, 1, 0][r.below(4)];
            let mut tags: BTreeSet<&'static str> = ["t1", "t3"].into_iter().collect();
            let built = guarded(|| build(&rules, optimize, policy));
            let mut e = match built {
                Ok(e) => e,
                Err(sig) => {
                    ctx.violation(sub, idx, &format!("C19:sequential:{}", sig), json!({"rules": rules}));
                    continue;
                }
            };
            let nrounds = 3 + r.below(4);
            let mut history: Vec<String> = vec![];
            let mut changes = 0;
            'rounds: for round in 0..nrounds {
                if round > 0 {
                    // the state change is made on its own thread
                    let pool = ["t1", "t2", "t3", "t4"];
                    let pick: Vec<&'static str> = pool.iter().filter(|_| r.chance(1, 2)).cloned().collect();
                    let mut op = r.below(5);
                    if op == 3 && rules.iter().any(|l| l.contains("removeparam")) {
                        // removeparam rules do not survive serialization (known finding, homed in C08)
                        op = 4;
                    }
                    let desc = match op {
                        0 => {
                            tags = pick.iter().cloned().collect();
                            format!("use_tags({:?})", pick)
                        }
                        1 => {
                            tags.extend(pick.iter().cloned());
                            format!("enable_tags({:?})", pick)
                        }
                        2 => {
                            for t in &pick {
                                tags.remove(t);
                            }
                            format!("disable_tags({:?})", pick)
                        }
                        3 => "serialize+deserialize into the same engine".to_string(),
                        _ => "no change".to_string(),
                    };
                    let e_mut = &mut e;
                    let res = std::thread::scope(|s| {
                        s.spawn(move || {
                            guarded(|| match op {
                                0 => e_mut.use_tags(&pick),
                                1 => e_mut.enable_tags(&pick),
                                2 => e_mut.disable_tags(&pick),
                                3 => {
                                    let buf = e_mut.serialize_raw().expect("serialize");
                                    e_mut.deserialize(&buf).expect("deserialize");
                                }
                                _ => {}
                            })
                        })
                        .join()
                    });
                    let failed: Option<String> = match res {
                        Ok(Ok(())) => None,
                        Ok(Err(sig)) => Some(sig),
                        Err(_) => Some("state-change thread died".to_string()),
                    };
                    if let Some(sig) = failed {
                        ctx.violation(sub, idx, &format!("C19:state-change-panicked:{}", sig), json!({"rules": rules, "history": history, "op": desc}));
                        break 'rounds;
                    }
                    history.push(desc);
                    if op < 4 {
                        changes += 1;
                    }
                }
                // sequential model: a fresh engine in the model state, queried on this thread
                let tagv: Vec<&str> = tags.iter().cloned().collect();
                let expected = guarded(|| {
                    let mut f = build(&rules, optimize, 2);
                    f.use_tags(&tagv);
                    qs.iter().map(|q| answer(&f, q)).collect::<Vec<String>>()
                });
                let expected = match expected {
                    Ok(x) => x,
                    Err(sig) => {
                        ctx.violation(sub, idx, &format!("C19:sequential:{}", sig), json!({"rules": rules}));
                        break 'rounds;
                    }
                };
                let (tx, rx) = mpsc::channel::<(usize, Result<Vec<(usize, String)>, String>)>();
                let mut results = vec![];
                let mut hung = false;
                std::thread::scope(|s| {
                    for t in 0..nthreads {
                        let tx = tx.clone();
                        let e = &e;
                        let qs = &qs;
                        s.spawn(move || {
                            let r = guarded(|| {
                                let off = t * qs.len() / nthreads;
                                (0..qs.len()).map(|k| ((k + off) % qs.len(), answer(e, &qs[(k + off) % qs.len()]))).collect::<Vec<_>>()
                            });
                            let _ = tx.send((t, r));
                        });
                    }
                    drop(tx);
                    for _ in 0..nthreads {
                        match rx.recv_timeout(Duration::from_secs(120)) {
                            Ok(x) => results.push(x),
                            Err(_) => {
                                hung = true;
                                break;
                            }
                        }
                    }
                    if hung {
                        eprintln!("abverif: C19 round did not complete within 120 s (case {})", idx);
                        std::process::abort();
                    }
                });
                ctx.obs("rounds_run", 1);
                for (t, res) in results {
                    match res {
                        Err(sig) => {
                            let s = if sig.contains("Poison") { "C19:lock-poisoned".to_string() } else { format!("C19:thread-panicked:{}", sig) };
                            ctx.violation(sub, idx, &s, json!({"rules": rules, "thread": t, "threads": nthreads, "history": history}));
                        }
                        Ok(answers) => {
                            for (i, a) in answers {
                                ctx.eval();
                                if a != expected[i] {
                                    ctx.violation(
                                        sub,
                                        idx,
                                        "C19:concurrent-answer-differs-from-sequential-after-state-change",
                                        json!({"rules": rules, "threads": nthreads, "thread": t, "round": round, "history": history, "enabled_tags": tagv,
                                            "query": format!("{:?}", qs[i]), "concurrent": a, "sequential_fresh_engine": expected[i], "discard_policy": policy}),
                                    );
                                    break;
                                }
                            }
                        }
                    }
                }
            }
            if changes >= 1 {
                ctx.nontrivial(fnv(&format!("{:?}|{:?}", rules, history)));
                ctx.obs("state_changes_between_concurrent_rounds", changes);
            }
            if idx % 16 == 0 {
                ctx.sample_tagged("rounds", || json!({"threads": nthreads, "queries_per_thread_per_round": qs.len(), "history": history}));
            }
        }
        verif::set_pre_acquire(None);
    }

    pub fn concurrent(ctx: &mut Ctx) {
        let sub = "conc";
        verif::set_pre_acquire(Some(Box::new(pre_acquire)));
        let tsan = ctx.extra.contains_key("tsan");
        let miri = ctx.extra.contains_key("miri");
        let cases = if miri { 1 } else if tsan { ctx.n(40, 400) } else { ctx.n(320, 8_000) };
        let nq = if miri { 3 } else if tsan { 120 } else { 400 };
        for idx in 0..cases {
            if ctx.stop() {
                break;
            }
            if !ctx.begin_case(sub, idx) {
                continue;
            }
            let seed = ctx.seed;
            let nthreads = [2usize, 8, 16, 4][((idx / 16 + idx) % 4) as usize];
            let delay_mode = (idx / 3 + idx) % 3;
            DELAY_SEED.store(seed ^ idx, Ordering::Relaxed);
            DELAY_MODE.store(delay_mode, Ordering::Relaxed);
            let (mut rules, mut qs, optimize, policy) = case_material(seed ^ 0xC19, idx, nq);
            let mut nthreads = nthreads;
            if miri {
                // the interpreter needs seconds per regex compilation: tiny engine, 2 threads, 3 queries
                rules = vec!["/ab*c^".to_string(), "||ads.net^".to_string(), "example.com##.ad".to_string()];
                qs = vec![
                    Q::Net("https://x.com/ab1c/".into(), "https://o.org/".into(), "script"),
                    Q::Net("https://ads.net/".into(), "https://o.org/".into(), "image"),
                    Q::Cos("https://example.com/".into()),
                ];
                nthreads = 2;
            }
            // sequential reference on the same engine (single thread; a re-entrant lock on any
            // query path would hang right here and be reported by the driver's replay)
            // The sequential reference comes from a twin built from the same material, so that the
            // shared engine is still cold (never queried, lazily built state not yet built) when
            // the threads arrive; every other batch it is warmed first, as a long-lived engine is.
            let warm = idx % 2 == 1;
            if !warm && !miri && idx % 4 == 0 {
                // a cold engine with thousands of buckets: whatever is built lazily on first use
                // takes long enough to build for the other threads to arrive meanwhile
                for i in 0..6000 {
                    rules.push(format!("/zzt{}x/ad^", i));
                }
                for i in [0usize, 1, 2999, 5999, 6001] {
                    qs.push(Q::Net(format!("https://x.com/zzt{}x/ad/1.js", i), "https://o.org/".into(), "script"));
                }
                ctx.obs("cold_large_batches", 1);
            }
            let built = guarded(|| {
                let twin = build(&rules, optimize, policy);
                let expected: Vec<String> = qs.iter().map(|q| answer(&twin, q)).collect();
                let e = build(&rules, optimize, policy);
                if warm {
                    for q in qs.iter() {
                        let _ = answer(&e, q);
                    }
                }
                (e, expected)
            });
            let (e, expected) = match built {
                Ok(x) => x,
                Err(sig) => {
                    ctx.violation(sub, idx, &format!("C19:sequential:{}", sig), json!({"rules": rules}));
                    continue;
                }
            };
            let _ = verif::take_events();
            // under ThreadSanitizer the event log stays off so that the hook adds no synchronisation
            verif::set_logging(!tsan, 1 << 18);
            // each thread runs the whole query list, starting at a different offset
            // cosmetic-only batches are cheap per query: repeat them so that threads collide often
            let reps = if !miri && qs.iter().all(|q| matches!(q, Q::Cos(_))) { 10 } else { 1 };
            let (tx, rx) = mpsc::channel::<(usize, Result<Vec<(usize, String)>, String>)>();
            let started = std::time::Instant::now();
            let mut hung = false;
            let mut results: Vec<(usize, Result<Vec<(usize, String)>, String>)> = vec![];
            // every third batch has an administrator thread that uses the Blocker's `&self`
            // maintenance API (discard policy, discarding single regexes, debug info) while the
            // others query: no answer may change and nobody may block for good
            let admin = !miri && idx % 3 == 1;
            let done = std::sync::atomic::AtomicBool::new(false);
            let admin_ops = AtomicU64::new(0);
            // all query threads start their first query together
            let barrier = std::sync::Barrier::new(nthreads);
            std::thread::scope(|s| {
                if admin {
                    let e = &e;
                    let done = &done;
                    let admin_ops = &admin_ops;
                    s.spawn(move || {
                        let b = e.verif_blocker();
                        let mut k = 0usize;
                        while !done.load(Ordering::Relaxed) {
                            match k % 4 {
                                0 => b.set_regex_discard_policy(RegexManagerDiscardPolicy {
                                    cleanup_interval: Duration::from_nanos(1 + (k as u64 % 3) * 1000),
                                    discard_unused_time: Duration::from_nanos(1),
                                }),
                                1 => {
                                    let info = b.get_regex_debug_info();
                                    if !info.regex_data.is_empty() {
                                        b.discard_regex(info.regex_data[k % info.regex_data.len()].id);
                                    }
                                }
                                2 => b.set_regex_discard_policy(RegexManagerDiscardPolicy::default()),
                                _ => {
                                    let _ = b.get_regex_debug_info();
                                }
                            }
                            k += 1;
                            admin_ops.fetch_add(1, Ordering::Relaxed);
                            std::thread::yield_now();
                        }
                    });
                }
                for t in 0..nthreads {
                    let tx = tx.clone();
                    let e = &e;
                    let qs = &qs;
                    let barrier = &barrier;
                    s.spawn(move || {
                        barrier.wait();
                        let r = guarded(|| {
                            let mut out = Vec::with_capacity(qs.len() * reps);
                            let off = t * qs.len() / nthreads;
                            for k in 0..qs.len() * reps {
                                let i = (k + off + k / qs.len()) % qs.len();
                                out.push((i, answer(e, &qs[i])));
                            }
                            out
                        });
                        let _ = tx.send((t, r));
                    });
                }
                drop(tx);
                // bounded progress: every batch completes (generous wall-clock watchdog; a firing
                // is reported as inconclusive by the driver unless it reproduces)
                for _ in 0..nthreads {
                    match rx.recv_timeout(Duration::from_secs(120)) {
                        Ok(x) => results.push(x),
                        Err(_) => {
                            hung = true;
                            break;
                        }
                    }
                }
                if hung {
                    // cannot join hung threads: leave the scope by aborting the process; the driver
                    // sees the journaled case and replays it
                    eprintln!("abverif: C19 batch did not complete within 120 s (case {})", idx);
                    std::process::abort();
                }
                done.store(true, Ordering::Relaxed);
            });
            if admin {
                ctx.obs("batches_with_a_maintenance_thread", 1);
                ctx.obs("maintenance_operations_during_batches", admin_ops.load(Ordering::Relaxed) as i64);
            }
            verif::set_logging(false, 0);
            let (events, dropped) = verif::take_events();
            let order: Vec<usize> = events
                .iter()
                .filter_map(|ev| match ev {
                    Event::ManagerAcquired { thread, .. } => Some(*thread),
                    _ => None,
                })
                .collect();
            let switches = order.windows(2).filter(|w| w[0] != w[1]).count();
            let distinct_threads: BTreeSet<usize> = order.iter().cloned().collect();
            let order_digest = fnv(&format!("{:?}", order));
            ctx.obs("manager_acquisitions_logged", order.len() as i64);
            ctx.obs("acquisition_order_thread_switches", switches as i64);
            ctx.obs("events_dropped_over_cap", dropped as i64);
            ctx.obs(&format!("batches_with_{}_threads", nthreads), 1);
            ctx.obs_max("max_batch_wall_ms", started.elapsed().as_millis() as i64);
            let interleaved = tsan || miri || (switches >= 2 * nthreads && distinct_threads.len() == nthreads);
            if interleaved {
                ctx.nontrivial(order_digest);
                ctx.obs("batches_interleaved", 1);
            } else {
                ctx.obs("batches_not_interleaved", 1);
            }
            for (t, r) in results {
                match r {
                    Err(sig) => {
                        let s = if sig.contains("Poison") { "C19:lock-poisoned".to_string() } else { format!("C19:thread-panicked:{}", sig) };
                        ctx.violation(sub, idx, &s, json!({"rules": rules, "thread": t, "threads": nthreads}));
                    }
                    Ok(answers) => {
                        for (i, a) in answers {
                            ctx.eval();
                            if a != expected[i] {
                                ctx.violation(
                                    sub,
                                    idx,
                                    "C19:concurrent-answer-differs-from-sequential",
                                    json!({"rules": rules, "threads": nthreads, "thread": t, "query": format!("{:?}", qs[i]), "concurrent": a, "sequential": expected[i],
                                        "discard_policy": policy, "delay_mode": delay_mode}),
                                );
                                break;
                            }
                        }
                    }
                }
            }
            if idx % 16 == 0 {
                ctx.sample_tagged("conc", || {
                    json!({"threads": nthreads, "queries_per_thread": qs.len(), "discard_policy": policy, "delay_mode": delay_mode,
                        "acquisitions": order.len(), "thread_switches_in_acquisition_order": switches, "acquisition_order_prefix": order.iter().take(48).collect::<Vec<_>>()})
                });
            }
        }
        verif::set_pre_acquire(None);
    }
}

#[allow(dead_code)]
fn _unused() {
    let _ = gen::TOK;
}
