//! C18 — scriptlet injection respects permissions and encodes arguments safely.
//!
//! (perm)  exhaustive 256 x 256 (resource permission, list permission) pairs; redirect never
//!         serves a permissioned resource
//! (graph) random dependency graphs (cycles, aliases, missing nodes, permissioned nodes at any
//!         depth, lists with different permissions on the same page), each queried repeatedly so
//!         that hash-map iteration order varies
//! (args)  argument strings over quotes, backslashes, control characters, line separators, `$`
//!         sequences, non-ASCII; every emitted literal must lex as a strict JSON string and parse
//!         back to exactly the intended argument
//! (unhide) `#@#+js(x, a)` removes exactly the identical injection, `#@#+js()` removes all

use crate::gen::ResDef;
use crate::mon::c16::invocations;
use crate::report::{guarded, Ctx};
use crate::rng::{fnv, Rng};
use adblock::lists::{FilterSet, ParseOptions};
use adblock::request::Request;
use adblock::resources::PermissionMask;
use adblock::Engine;
use serde_json::json;
use std::collections::{BTreeMap, BTreeSet};

pub fn run(ctx: &mut Ctx) {
    exhaustive_permissions(ctx);
    graphs(ctx);
    arguments(ctx);
    unhide(ctx);
}

fn opts(perm: u8) -> ParseOptions {
    ParseOptions {
        permissions: PermissionMask::from_bits(perm),
        ..Default::default()
    }
}

fn js(name: &str, body: &str, deps: &[String], perm: u8, aliases: &[String], kind: &str) -> ResDef {
    ResDef {
        name: name.into(),
        aliases: aliases.to_vec(),
        kind: kind.into(),
        content: body.into(),
        deps: deps.to_vec(),
        perm,
    }
}

fn exhaustive_permissions(ctx: &mut Ctx) {
    let sub = "perm";
    // one engine per shard: 256 lists x 256 scriptlets
    let mine: Vec<u64> = (0..256u64).filter(|q| ctx.owns(sub, *q)).collect();
    if mine.is_empty() {
        return;
    }
    let built = guarded(|| {
        let mut fs = FilterSet::new(true);
        for q in &mine {
            let lines: Vec<String> = (0..256).map(|p| format!("h{}.example##+js(p{})", q, p)).collect();
            fs.add_filters(&lines, opts(*q as u8));
        }
        let redirects: Vec<String> = (0..256).map(|p| format!("||r.example/p{}/$redirect=p{}.js", p, p)).collect();
        fs.add_filters(&redirects, opts(255));
        let mut e = Engine::from_filter_set(fs, true);
        e.use_resources((0..256).map(|p| js(&format!("p{}.js", p), &format!("function p{}() {{ /*P{}*/ }}", p, p), &[], p as u8, &[], "application/javascript").to_resource()));
        e
    });
    let e = match built {
        Ok(e) => e,
        Err(sig) => {
            ctx.violation(sub, 0, &format!("C18:{}", sig), json!({}));
            return;
        }
    };
    let mut complete = true;
    for q in mine {
        if ctx.stop() {
            complete = false;
            break;
        }
        if !ctx.begin_case(sub, q) {
            continue;
        }
        let r = guarded(|| {
            let res = e.url_cosmetic_resources(&format!("https://h{}.example/", q));
            invocations(&res.injected_script)
        });
        match r {
            Err(sig) => ctx.violation(sub, q, &format!("C18:{}", sig), json!({"list_permission": q})),
            Ok(inv) => {
                for p in 0..256u64 {
                    ctx.eval();
                    let want = p & !q == 0;
                    let got = inv.contains(&format!("p{}()", p));
                    if want && p != 0 {
                        ctx.nontrivial(q * 256 + p);
                    }
                    if got != want {
                        ctx.violation(
                            sub,
                            q,
                            if got { "C18:permission:injected-without-required-bits" } else { "C18:permission:permitted-scriptlet-not-injected" },
                            json!({"resource_permission": p, "list_permission": q, "injected": got, "expected": want}),
                        );
                    }
                }
                if q == 255 {
                    ctx.sample(|| json!({"list_permission": q, "injected_scriptlets": inv.len()}));
                }
            }
        }
    }
    // redirect never serves a resource that requires any permission (checked by the shard owning q=0)
    if ctx.owns(sub, 0) {
        for p in 0..256u64 {
            let r = guarded(|| {
                let rq = Request::new(&format!("https://r.example/p{}/x.js", p), "https://other.org/", "script").unwrap();
                e.check_network_request(&rq)
            });
            match r {
                Err(sig) => ctx.violation(sub, 1000 + p, &format!("C18:{}", sig), json!({})),
                Ok(b) => {
                    ctx.eval();
                    let want = p == 0;
                    if b.redirect.is_some() != want || !b.matched {
                        ctx.violation(
                            sub,
                            1000 + p,
                            "C18:redirect-of-permissioned-resource",
                            json!({"resource_permission": p, "redirect": b.redirect, "matched": b.matched}),
                        );
                    }
                }
            }
        }
    }
    // ... whatever its kind: every redirectable MIME type x every permission mask, on its own engine
    if ctx.owns(sub, 0) {
        let kinds = ["text/html", "image/gif", "application/json", "text/plain", "text/css", "image/png", "audio/mp3", "video/mp4", "text/xml", "application/javascript"];
        let r = guarded(|| {
            let mut lines = vec![];
            let mut defs = vec![];
            for (k, kind) in kinds.iter().enumerate() {
                for p in 0..256u32 {
                    lines.push(format!("||k.example/k{}p{}/$redirect=k{}p{}.res", k, p, k, p));
                    defs.push(js(&format!("k{}p{}.res", k, p), "x", &[], p as u8, &[], kind).to_resource());
                }
            }
            let mut fs = FilterSet::new(true);
            fs.add_filters(&lines, opts(255));
            let mut e = Engine::from_filter_set(fs, false);
            e.use_resources(defs);
            let mut bad = vec![];
            let mut served = 0u64;
            for (k, kind) in kinds.iter().enumerate() {
                for p in 0..256u32 {
                    let rq = Request::new(&format!("https://k.example/k{}p{}/x", k, p), "https://other.org/", "image").unwrap();
                    let b = e.check_network_request(&rq);
                    if b.redirect.is_some() {
                        served += 1;
                    }
                    if b.redirect.is_some() && p != 0 {
                        bad.push(json!({"kind": kind, "resource_permission": p, "redirect": b.redirect}));
                    }
                }
            }
            (bad, served)
        });
        match r {
            Err(sig) => ctx.violation(sub, 2000, &format!("C18:{}", sig), json!({})),
            Ok((bad, served)) => {
                ctx.evals(2560);
                ctx.obs("redirects_served_for_unpermissioned_resources_of_10_kinds", served as i64);
                for d in bad {
                    ctx.violation(sub, 2000, "C18:redirect-of-permissioned-resource", d);
                }
            }
        }
    }
    if complete {
        ctx.report.exhaustive.push("all 256 x 256 (resource permission, list permission) pairs (this shard's list permissions); redirect for all 256 resource permissions".into());
    }
}

// ---------------------------------------------------------------------------------------------
// dependency graphs
// ---------------------------------------------------------------------------------------------

struct Graph {
    nodes: Vec<ResDef>,
}

fn gen_graph(r: &mut Rng) -> Graph {
    let n = 3 + r.below(6);
    let mut nodes = vec![];
    for i in 0..n {
        let name = format!("n{}.js", i);
        let alias = format!("n{}", i);
        let perm = if r.chance(1, 3) { *r.pick(&[1u8, 2, 3]) } else { 0 };
        let ndeps = r.below(3);
        let mut deps = vec![];
        for _ in 0..ndeps {
            let t = r.below(n + 1); // may point at a missing node
            deps.push(if r.chance(1, 3) { format!("n{}", t) } else { format!("n{}.js", t) });
        }
        let kind = if r.chance(1, 6) { "fn/javascript" } else { "application/javascript" };
        nodes.push(js(&name, &format!("function n{}() {{ /*N{}*/ }}", i, i), &deps, perm, &[alias], kind));
    }
    Graph { nodes }
}

impl Graph {
    fn find(&self, ident: &str) -> Option<usize> {
        self.nodes.iter().position(|d| d.name == ident || d.aliases.iter().any(|a| a == ident))
    }
    /// (reachable node set incl. the root, whether some dependency is missing)
    fn reach(&self, root: usize) -> (BTreeSet<usize>, bool) {
        let mut seen = BTreeSet::new();
        let mut missing = false;
        let mut stack = vec![root];
        while let Some(i) = stack.pop() {
            if !seen.insert(i) {
                continue;
            }
            for d in &self.nodes[i].deps {
                match self.find(d) {
                    Some(j) => stack.push(j),
                    None => missing = true,
                }
            }
        }
        (seen, missing)
    }
}

fn graphs(ctx: &mut Ctx) {
    let sub = "graph";
    let cases = ctx.n(40_000, 1_000_000);
    for idx in 0..cases {
        if ctx.stop() {
            break;
        }
        if !ctx.begin_case(sub, idx) {
            continue;
        }
        let seed = ctx.seed;
        let out = guarded(|| {
            let mut r = Rng::for_case(seed, "c18.graph", idx);
            let g = gen_graph(&mut r);
            // 2-3 lists with different permissions, all requesting scriptlets for the same page
            let nlists = 2 + r.below(2);
            let mut fs = FilterSet::new(true);
            let mut requested: BTreeMap<String, u8> = BTreeMap::new(); // args string -> union of masks
            let mut desc = vec![];
            for _ in 0..nlists {
                let perm = *r.pick(&[0u8, 0, 1, 2, 3]);
                let k = 1 + r.below(3);
                let mut lines = vec![];
                for _ in 0..k {
                    let t = r.below(g.nodes.len());
                    let args = if r.chance(1, 3) { format!("n{}.js", t) } else { format!("n{}", t) };
                    lines.push(format!("page.example##+js({})", args));
                    *requested.entry(args).or_insert(0) |= perm;
                }
                fs.add_filters(&lines, opts(perm));
                desc.push(json!({"list_permission": perm, "rules": lines}));
            }
            let mut e = Engine::from_filter_set(fs, r.chance(1, 2));
            e.use_resources(g.nodes.iter().map(|n| n.to_resource()));
            let mut viol: Vec<(String, serde_json::Value)> = vec![];
            let mut shared_permissioned = false;
            // model: per requested args, is the invocation allowed / required?
            let mut allowed: BTreeMap<String, bool> = BTreeMap::new();
            let mut required: BTreeMap<String, bool> = BTreeMap::new();
            let mut reach_count: BTreeMap<usize, usize> = BTreeMap::new();
            for (args, mask) in &requested {
                let root = g.find(args).unwrap();
                let (reach, missing) = g.reach(root);
                let perms_ok = reach.iter().all(|i| g.nodes[*i].perm & !mask == 0);
                let injectable = g.nodes[root].kind == "application/javascript";
                allowed.insert(args.clone(), perms_ok && injectable);
                required.insert(args.clone(), perms_ok && injectable && !missing);
                for i in reach {
                    if g.nodes[i].perm != 0 {
                        *reach_count.entry(i).or_insert(0) += 1;
                    }
                }
            }
            if reach_count.values().any(|c| *c >= 2) {
                shared_permissioned = true;
            }
            let mut orders: BTreeSet<String> = BTreeSet::new();
            for _ in 0..8 {
                let res = e.url_cosmetic_resources("https://page.example/");
                let inv = invocations(&res.injected_script);
                orders.insert(res.injected_script.lines().filter(|l| l.ends_with("()")).collect::<Vec<_>>().join(","));
                // which args produced which invocation: function name n{i}
                for (args, _) in &requested {
                    let root = g.find(args).unwrap();
                    let call = format!("n{}()", root);
                    let present = inv.contains(&call);
                    // several args strings may name the same node (alias vs name): judge the call
                    // against the best-permitted spelling
                    let any_allowed = requested.iter().any(|(a, _)| g.find(a) == Some(root) && allowed[a]);
                    let all_required = requested.iter().any(|(a, _)| g.find(a) == Some(root) && required[a]);
                    if present && !any_allowed {
                        viol.push((
                            "C18:graph:invocation-without-sufficient-permission".into(),
                            json!({"args": args, "invocation": call, "script": res.injected_script}),
                        ));
                    }
                    if !present && all_required {
                        viol.push((
                            "C18:graph:permitted-invocation-missing".into(),
                            json!({"args": args, "invocation": call, "script": res.injected_script}),
                        ));
                    }
                }
                // dependency bodies requiring bits R need a requester with R in its mask that reaches them
                for (i, node) in g.nodes.iter().enumerate() {
                    let count = res.injected_script.matches(&format!("/*N{}*/", i)).count();
                    if count > 1 {
                        viol.push(("C18:graph:definition-emitted-more-than-once".into(), json!({"node": node.name, "script": res.injected_script})));
                    }
                    if count >= 1 && node.perm != 0 {
                        let justified = requested.iter().any(|(a, m)| {
                            let root = g.find(a).unwrap();
                            g.reach(root).0.contains(&i) && node.perm & !m == 0
                        });
                        if !justified {
                            viol.push((
                                "C18:graph:permissioned-body-without-permitted-requester".into(),
                                json!({"node": node.name, "node_permission": node.perm, "script": res.injected_script}),
                            ));
                        }
                    }
                }
            }
            let detail = json!({"resources": g.nodes.iter().map(|n| json!({"name": n.name, "aliases": n.aliases, "deps": n.deps, "permission": n.perm, "kind": n.kind})).collect::<Vec<_>>(),
                "lists": desc});
            (viol, shared_permissioned, orders.len(), detail)
        });
        match out {
            Err(sig) => ctx.violation(sub, idx, &format!("C18:{}", sig), json!({})),
            Ok((viol, nt, norders, detail)) => {
                ctx.evals(8);
                ctx.obs_max("max_distinct_invocation_orders_for_one_page", norders as i64);
                if norders > 1 {
                    ctx.obs("graphs_observed_under_more_than_one_iteration_order", 1);
                }
                if nt {
                    ctx.nontrivial(fnv(&detail.to_string()));
                    ctx.sample_tagged("graph", || detail.clone());
                }
                for (sig, extra) in viol {
                    let mut d = detail.clone();
                    d.as_object_mut().unwrap().insert("witness".into(), extra);
                    ctx.violation(sub, idx, &sig, d);
                }
            }
        }
    }
}

// ---------------------------------------------------------------------------------------------
// argument encoding
// ---------------------------------------------------------------------------------------------

/// Strict JSON string-literal lexer: returns (decoded value, rest after the closing quote).
pub fn lex_json_string(s: &str) -> Option<(String, &str)> {
    let mut it = s.char_indices();
    match it.next() {
        Some((_, '"')) => {}
        _ => return None,
    }
    let mut out = String::new();
    let mut pending_high: Option<u32> = None;
    while let Some((i, c)) = it.next() {
        if pending_high.is_some() && c != '\\' {
            return None;
        }
        match c {
            '"' => return Some((out, &s[i + 1..])),
            '\\' => {
                let (_, e) = it.next()?;
                let simple = match e {
                    '"' => Some('"'),
                    '\\' => Some('\\'),
                    '/' => Some('/'),
                    'b' => Some('\u{8}'),
                    'f' => Some('\u{c}'),
                    'n' => Some('\n'),
                    'r' => Some('\r'),
                    't' => Some('\t'),
                    'u' => None,
                    _ => return None,
                };
                if let Some(ch) = simple {
                    if pending_high.is_some() {
                        return None;
                    }
                    out.push(ch);
                } else {
                    let mut v = 0u32;
                    for _ in 0..4 {
                        let (_, h) = it.next()?;
                        v = v * 16 + h.to_digit(16)?;
                    }
                    if let Some(hi) = pending_high.take() {
                        if !(0xDC00..0xE000).contains(&v) {
                            return None;
                        }
                        out.push(char::from_u32(0x10000 + ((hi - 0xD800) << 10) + (v - 0xDC00))?);
                    } else if (0xD800..0xDC00).contains(&v) {
                        pending_high = Some(v);
                    } else if (0xDC00..0xE000).contains(&v) {
                        return None;
                    } else {
                        out.push(char::from_u32(v)?);
                    }
                }
            }
            c if (c as u32) < 0x20 => return None,
            c => out.push(c),
        }
    }
    None
}

/// Parse `name(` JSON-strings `)`.
fn parse_invocation(inv: &str, fname: &str) -> Option<Vec<String>> {
    let rest = inv.strip_prefix(fname)?.strip_prefix('(')?;
    let mut args = vec![];
    let mut rest = rest;
    if let Some(r) = rest.strip_prefix(')') {
        return if r.is_empty() { Some(args) } else { None };
    }
    loop {
        let (v, r) = lex_json_string(rest)?;
        args.push(v);
        if let Some(r2) = r.strip_prefix(", ") {
            rest = r2;
        } else if r == ")" {
            return Some(args);
        } else {
            return None;
        }
    }
}

const ATOMS: &[&str] = &[
    "a", "B", "0", " ", "x y", "\"", "'", "`", "\\", "\\\\", "\n", "\r", "\t", "\u{0}", "\u{1}", "\u{1f}", "\u{7f}", "\u{2028}", "\u{2029}",
    "$1", "$$", "$&", "$`", "</script>", "<!--", "é", "日本", "🎉", ",", ";", ")", "(", "}", "{", "]]>", "\u{feff}", "\\n", "\\\"", "\\u0022", "*/", "//",
];

fn gen_arg(r: &mut Rng) -> String {
    let n = 1 + r.below(5);
    let mut s = String::new();
    for _ in 0..n {
        s.push_str(r.ps(ATOMS));
    }
    s
}

/// Spell one intended argument inside `+js(...)` in a way whose meaning is unambiguous; returns
/// None if this argument cannot be spelt that way.
fn spell_arg(r: &mut Rng, a: &str, last: bool) -> Option<String> {
    let has_newline = a.contains('\n') || a.contains('\r');
    let mut styles: Vec<u8> = vec![];
    let trimmed = a.trim() == a && !a.is_empty();
    let first = a.chars().next();
    let plain_ok = trimmed && !a.contains('\\') && !matches!(first, Some('"') | Some('\'') | Some('`')) && !has_newline && !a.ends_with(')');
    if plain_ok && !a.contains(',') {
        styles.push(0);
    }
    if plain_ok && a.contains(',') {
        styles.push(1);
    }
    for (k, q) in ['"', '\'', '`'].iter().enumerate() {
        // quoted: no occurrence of the quote, no backslash at the end, no backslash before a quote char
        if !a.contains(*q) && !a.ends_with('\\') && !has_newline {
            styles.push(2 + k as u8);
        }
    }
    let _ = last;
    if styles.is_empty() {
        return None;
    }
    Some(match *r.pick(&styles) {
        0 => a.to_string(),
        1 => a.replace(',', "\\,"),
        2 => format!("\"{}\"", a),
        3 => format!("'{}'", a),
        _ => format!("`{}`", a),
    })
}

fn arguments(ctx: &mut Ctx) {
    let sub = "args";
    let cases = ctx.n(300_000, 6_000_000);
    let resources = || {
        vec![js("fnarg.js", "function fnarg() { /*FN*/ }", &[], 0, &["fnarg".to_string()], "application/javascript").to_resource()]
    };
    for idx in 0..cases {
        if ctx.stop() {
            break;
        }
        if !ctx.begin_case(sub, idx) {
            continue;
        }
        let seed = ctx.seed;
        let out = guarded(|| {
            let mut r = Rng::for_case(seed, "c18.args", idx);
            // (function-style scriptlets take any number of arguments; templates stop at {{9}})
            let k = if r.chance(1, 6) { 9 + r.below(8) } else { r.below(5) };
            let mut intended: Vec<String> = vec![];
            let mut spelt: Vec<String> = vec![];
            for i in 0..k {
                // find an argument that has an unambiguous spelling
                for _ in 0..8 {
                    let a = gen_arg(&mut r);
                    if let Some(s) = spell_arg(&mut r, &a, i + 1 == k) {
                        intended.push(a);
                        spelt.push(s);
                        break;
                    }
                }
            }
            // a lone `{...}` argument is object syntax (unsupported by documented design)
            if intended.len() == 1 && intended[0].starts_with('{') && intended[0].ends_with('}') {
                return None;
            }
            let mut parts = vec!["fnarg".to_string()];
            parts.extend(spelt.iter().cloned());
            let sep = r.ps(&[", ", ",", " , "]);
            let line = format!("args.example##+js({})", parts.join(sep));
            let mut fs = FilterSet::new(true);
            let accepted = fs.add_filter(&line, ParseOptions::default()).is_ok();
            let mut e = Engine::from_filter_set(fs, true);
            e.use_resources(resources());
            let res = e.url_cosmetic_resources("https://args.example/");
            Some((line, intended, accepted, res.injected_script))
        });
        match out {
            Err(sig) => ctx.violation(sub, idx, &format!("C18:{}", sig), json!({})),
            Ok(None) => {}
            Ok(Some((line, intended, accepted, script))) => {
                ctx.eval();
                let needs_escape = intended.iter().any(|a| a.chars().any(|c| c == '"' || c == '\\' || (c as u32) < 0x20 || c == '\u{2028}' || c == '\u{2029}'));
                let inv = invocations(&script);
                if !accepted {
                    ctx.obs("argument_lists_rejected_by_parser", 1);
                    if !inv.is_empty() {
                        ctx.violation(sub, idx, "C18:args:rejected-rule-still-injected", json!({"rule": line}));
                    }
                } else {
                    if needs_escape {
                        ctx.nontrivial(fnv(&line));
                    }
                    let detail = json!({"rule": line, "intended_arguments": intended, "invocations": inv, "script": script});
                    if inv.len() != 1 {
                        ctx.violation(sub, idx, "C18:args:expected-exactly-one-invocation", detail);
                    } else {
                        let call = inv.iter().next().unwrap();
                        match parse_invocation(call, "fnarg") {
                            None => ctx.violation(sub, idx, "C18:args:invocation-is-not-name-of-json-strings", detail),
                            Some(got) => {
                                if got != intended {
                                    let mut d = detail.clone();
                                    d.as_object_mut().unwrap().insert("decoded_arguments".into(), json!(got));
                                    ctx.violation(sub, idx, "C18:args:literal-does-not-parse-back-to-the-argument", d);
                                } else if needs_escape {
                                    ctx.sample_tagged("args", || detail);
                                }
                            }
                        }
                    }
                }
            }
        }
    }
}

fn unhide(ctx: &mut Ctx) {
    let sub = "unhide";
    let cases = ctx.n(40_000, 600_000);
    for idx in 0..cases {
        if ctx.stop() {
            break;
        }
        if !ctx.begin_case(sub, idx) {
            continue;
        }
        let seed = ctx.seed;
        let out = guarded(|| {
            let mut r = Rng::for_case(seed, "c18.unhide", idx);
            let pool = ["fnarg, a", "fnarg, b", "fnarg, a, b", "fnarg", "fnarg,a", "fnarg, 'a'"];
            // locations that all cover the page sub.u.example: the host, its parent, entity forms
            let covering = ["sub.u.example", "u.example", "u.*", "sub.u.*", "example"];
            let elsewhere = ["other.example", "x.sub.u.example", "v.*"];
            let mut injected: BTreeSet<&str> = BTreeSet::new();
            let mut lines = vec![];
            for _ in 0..1 + r.below(4) {
                let a = r.ps(&pool);
                injected.insert(a);
                lines.push(format!("{}##+js({})", r.ps(&covering), a));
            }
            let mut removed: BTreeSet<&str> = BTreeSet::new();
            let mut blanket = false;
            for _ in 0..r.below(3) {
                if r.chance(1, 4) {
                    blanket = true;
                    lines.push(format!("{}#@#+js()", r.ps(&covering)));
                } else if r.chance(1, 4) {
                    // an exception scoped elsewhere removes nothing
                    lines.push(format!("{}#@#+js({})", r.ps(&elsewhere), r.ps(&pool)));
                } else {
                    let a = r.ps(&pool);
                    removed.insert(a);
                    lines.push(format!("{}#@#+js({})", r.ps(&covering), a));
                }
            }
            if r.chance(1, 3) {
                lines.push(r.ps(&["@@||u.example^$generichide", "@@||sub.u.example^$generichide"]).to_string());
            }
            r.shuffle(&mut lines);
            let mut fs = FilterSet::new(true);
            fs.add_filters(&lines, ParseOptions::default());
            let mut e = Engine::from_filter_set(fs, true);
            e.use_resources(vec![js("fnarg.js", "function fnarg() { /*FN*/ }", &[], 0, &["fnarg".to_string()], "application/javascript").to_resource()]);
            let inv = invocations(&e.url_cosmetic_resources("https://sub.u.example/").injected_script);
            // the same engine after a serialization round trip must inject the same set
            let inv_reloaded = {
                let mut e2 = Engine::new(true);
                e2.deserialize(&e.serialize_raw().expect("serialize")).expect("deserialize");
                e2.use_resources(vec![js("fnarg.js", "function fnarg() { /*FN*/ }", &[], 0, &["fnarg".to_string()], "application/javascript").to_resource()]);
                invocations(&e2.url_cosmetic_resources("https://sub.u.example/").injected_script)
            };
            // expected: identical text removes; different spelling of the same call does not
            let mut want: BTreeSet<String> = BTreeSet::new();
            if !blanket {
                for a in injected.difference(&removed) {
                    let parts: Vec<&str> = a.split(',').map(|s| s.trim().trim_matches('\'')).collect();
                    let args: Vec<String> = parts[1..].iter().map(|x| format!("\"{}\"", x)).collect();
                    want.insert(format!("fnarg({})", args.join(", ")));
                }
            }
            (lines, inv, want, !removed.is_empty() || blanket, inv_reloaded)
        });
        match out {
            Err(sig) => ctx.violation(sub, idx, &format!("C18:{}", sig), json!({})),
            Ok((lines, inv, want, nt, inv_reloaded)) => {
                ctx.eval();
                if inv_reloaded != inv {
                    ctx.violation(sub, idx, "C18:unhide:injections-differ-after-serialization-round-trip", json!({"rules": lines, "invocations": inv, "after_reload": inv_reloaded}));
                }
                if nt {
                    ctx.nontrivial(fnv(&format!("{:?}", lines)));
                }
                if inv != want {
                    ctx.violation(sub, idx, "C18:unhide:scriptlet-exception-removed-wrong-set", json!({"rules": lines, "invocations": inv, "expected": want}));
                }
            }
        }
    }
}
