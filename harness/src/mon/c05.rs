//! C05 — rule optimisation never changes any verdict.
//!
//! Differential twins: Engine(L, optimize=true) vs Engine(L, optimize=false), and a Blocker built
//! unoptimised, queried, optimised in place (`optimize()`), queried again — under several tag
//! sets, full verdict tuple + CSP, ignoring only the debug text. Lists are built so that rules
//! share buckets and fusion groups.

use crate::gen::{self, gen_clustered_list, gen_request, standard_resources, Profile, TAGS};
use crate::mon::common::{ask, build_engine, differs_only_by_redirect_tie, minimize_rules, Answer};
use crate::oracle::resources::ResModel;
use crate::oracle::scan::{split_csp, Scan};
use crate::report::{guarded, Ctx};
use crate::rng::{fnv, Rng};
use adblock::blocker::{Blocker, BlockerOptions};
use adblock::lists::{parse_filters, ParseOptions};
use adblock::request::Request;
use adblock::resources::ResourceStorage;
use adblock::Engine;
use serde_json::json;
use std::collections::HashSet;

pub fn run(ctx: &mut Ctx) {
    twins(ctx);
    if !ctx.quick() || ctx.extra.contains_key("corpus") {
        corpus(ctx);
    }
}

/// Number of fused rules (AnyOf parts or merged debug lines) in an engine, via the H4 walker.
pub fn fused_rules(e: &Engine) -> usize {
    let mut n = 0;
    e.verif_blocker().verif_walk(&mut |_, _, f| {
        let merged_text = f.raw_line.as_ref().map(|l| l.contains(" <+> ")).unwrap_or(false);
        if matches!(f.filter, adblock::filters::network::FilterPart::AnyOf(_)) || merged_text {
            n += 1;
        }
    });
    n
}

pub fn blocker_answer(b: &Blocker, res: &ResourceStorage, rq: &Request) -> Answer {
    let r = b.check(rq, res);
    Answer {
        matched: r.matched,
        important: r.important,
        exception: r.exception.is_some(),
        redirect: r.redirect,
        rewritten: r.rewritten_url,
        csp: split_csp(&b.get_csp_directives(rq)),
        filter: r.filter,
        exception_text: r.exception,
    }
}

enum Ev {
    Tie,
    Ok { nt: bool, h: u64, sample: serde_json::Value, by_fused: bool },
    Diff { kind: &'static str, detail: serde_json::Value },
}

fn twins(ctx: &mut Ctx) {
    let sub = "twins";
    let cases = ctx.n(30_000, 2_800_000);
    let resdefs = standard_resources();
    let res = ResModel { defs: &resdefs };
    for idx in 0..cases {
        if ctx.stop() {
            break;
        }
        if !ctx.begin_case(sub, idx) {
            continue;
        }
        let seed = ctx.seed;
        let outcome = guarded(|| {
            let mut r = Rng::for_case(seed, "c05.twins", idx);
            let rules = gen_clustered_list(&mut r, &Profile::ALL);
            let debug = r.chance(2, 3);
            let opts = ParseOptions::default();
            let mut e_opt = build_engine(&rules, opts, debug, true);
            let mut e_raw = build_engine(&rules, opts, debug, false);
            // live optimisation on a Blocker
            let (nf, _) = parse_filters(&rules, debug, opts);
            let mut blocker = Blocker::new(nf, &BlockerOptions { enable_optimizations: false });
            let storage = ResourceStorage::from_resources(resdefs.iter().map(|d| d.to_resource()));
            let fused = fused_rules(&e_opt);
            let mut scan = Scan::new(&rules, opts);
            let mut out = vec![];
            let tagsets: Vec<Vec<&str>> = vec![
                vec![],
                TAGS.iter().filter(|_| r.chance(1, 2)).cloned().collect(),
                TAGS.to_vec(),
            ];
            let reqs: Vec<gen::Req> = (0..8).map(|_| gen_request(&mut r, &rules)).collect();
            let mut before: Vec<Vec<Option<Answer>>> = vec![];
            for tags in &tagsets {
                e_opt.use_tags(tags);
                e_raw.use_tags(tags);
                blocker.use_tags(tags);
                let tagset: HashSet<String> = tags.iter().map(|s| s.to_string()).collect();
                let mut row = vec![];
                for q in &reqs {
                    let rq = match Request::new(&q.url, &q.source, q.rtype) {
                        Ok(rq) => rq,
                        Err(_) => {
                            row.push(None);
                            continue;
                        }
                    };
                    let a = ask(&e_opt, &rq);
                    let b = ask(&e_raw, &rq);
                    let c = blocker_answer(&blocker, &storage, &rq);
                    row.push(Some(c.clone()));
                    let v = scan.verdict(&rq, &q.url, &tagset, &res);
                    let by_fused = a.filter.as_ref().map(|f| f.contains(" <+> ")).unwrap_or(false)
                        || a.exception_text.as_ref().map(|f| f.contains(" <+> ")).unwrap_or(false);
                    let h = fnv(&format!("{:?}|{:?}|{}|{}|{}", rules, tags, q.url, q.source, q.rtype));
                    if !a.same_verdict(&b) && differs_only_by_redirect_tie(&a, &b, &rules, &tagset, &rq, &q.url, &resdefs) {
                        out.push(Ev::Tie);
                    } else if !b.same_verdict(&c) && differs_only_by_redirect_tie(&b, &c, &rules, &tagset, &rq, &q.url, &resdefs) {
                        out.push(Ev::Tie);
                    } else if !a.same_verdict(&b) {
                        let min = minimize_rules(&rules, |cand| {
                            let mut x = build_engine(cand, opts, debug, true);
                            let mut y = build_engine(cand, opts, debug, false);
                            x.use_tags(tags);
                            y.use_tags(tags);
                            !ask(&x, &rq).same_verdict(&ask(&y, &rq))
                        });
                        out.push(Ev::Diff {
                            kind: "engine-twins",
                            detail: json!({"rules": rules, "minimised_rules": min, "tags": tags, "url": q.url, "source": q.source, "type": q.rtype,
                                "optimized": a.to_json(), "unoptimized": b.to_json()}),
                        });
                    } else if !b.same_verdict(&c) {
                        out.push(Ev::Diff {
                            kind: "engine-vs-blocker",
                            detail: json!({"rules": rules, "tags": tags, "url": q.url, "source": q.source, "type": q.rtype,
                                "engine_unoptimized": b.to_json(), "blocker_unoptimized": c.to_json()}),
                        });
                    } else {
                        out.push(Ev::Ok {
                            nt: fused > 0 && (v.hits > 0 || v.csp.is_some()),
                            h,
                            sample: json!({"rules": rules, "tags": tags, "url": q.url, "type": q.rtype, "fused_rules_in_optimized_engine": fused, "verdict": a.to_json()}),
                            by_fused,
                        });
                    }
                }
                before.push(row);
            }
            // optimise the live blocker and ask everything again; then optimise the already
            // optimised blocker once more (idempotence: fused rules take part in a second fusion)
            for pass in 0..2 {
            blocker.optimize();
            for (ti, tags) in tagsets.iter().enumerate() {
                blocker.use_tags(tags);
                for (qi, q) in reqs.iter().enumerate() {
                    let prev = match &before[ti][qi] {
                        Some(p) => p,
                        None => continue,
                    };
                    let rq = Request::new(&q.url, &q.source, q.rtype).unwrap();
                    let now = blocker_answer(&blocker, &storage, &rq);
                    let tagset2: HashSet<String> = tags.iter().map(|s| s.to_string()).collect();
                    if !now.same_verdict(prev) && differs_only_by_redirect_tie(&now, prev, &rules, &tagset2, &rq, &q.url, &resdefs) {
                        out.push(Ev::Tie);
                    } else if !now.same_verdict(prev) {
                        out.push(Ev::Diff {
                            kind: if pass == 0 { "live-optimize" } else { "live-optimize-twice" },
                            detail: json!({"rules": rules, "tags": tags, "url": q.url, "source": q.source, "type": q.rtype,
                                "before_optimize": prev.to_json(), "after_optimize": now.to_json()}),
                        });
                    } else {
                        out.push(Ev::Ok { nt: false, h: 0, sample: json!(null), by_fused: false });
                    }
                }
            }
            }
            // growth after optimisation: the optimised blocker and a never-optimised twin receive
            // the same near-twin rules through add_filter and must accept/refuse and answer alike
            let (nf2, _) = parse_filters(&rules, debug, opts);
            let mut twin = Blocker::new(nf2, &BlockerOptions { enable_optimizations: false });
            let mut grown = rules.clone();
            for _ in 0..1 + r.below(3) {
                let base = r.pick(&rules).clone();
                let line = match gen::near_twin(&mut r, &base, &Profile::ALL) {
                    Some(l) if !l.contains("badfilter") => l,
                    _ => continue,
                };
                let (mut a1, _) = parse_filters([&line], debug, opts);
                let (mut a2, _) = parse_filters([&line], debug, opts);
                if let (Some(f1), Some(f2)) = (a1.pop(), a2.pop()) {
                    let r1 = blocker.add_filter(f1).is_ok();
                    let r2 = twin.add_filter(f2).is_ok();
                    // (the reverse is benign: an optimised list cannot see that a rule is already
                    // present as a member of a fused rule, and a duplicate changes no verdict)
                    if !r1 && r2 {
                        out.push(Ev::Diff {
                            kind: "optimised-blocker-refuses-a-rule-the-unoptimised-twin-accepts-as-new",
                            detail: json!({"rules": rules, "added": line, "optimised_blocker_accepts": r1, "unoptimised_blocker_accepts": r2}),
                        });
                    }
                    if r2 {
                        grown.push(line);
                    }
                }
            }
            if grown.len() > rules.len() {
                for tags in tagsets.iter() {
                    blocker.use_tags(tags);
                    twin.use_tags(tags);
                    let tagset3: HashSet<String> = tags.iter().map(|s| s.to_string()).collect();
                    let extra: Vec<gen::Req> = (0..3).map(|_| gen_request(&mut r, &grown[rules.len()..])).collect();
                    for q in reqs.iter().chain(extra.iter()) {
                        let rq = match Request::new(&q.url, &q.source, q.rtype) {
                            Ok(rq) => rq,
                            Err(_) => continue,
                        };
                        let x = blocker_answer(&blocker, &storage, &rq);
                        let y = blocker_answer(&twin, &storage, &rq);
                        if !x.same_verdict(&y) && differs_only_by_redirect_tie(&x, &y, &grown, &tagset3, &rq, &q.url, &resdefs) {
                            out.push(Ev::Tie);
                        } else if !x.same_verdict(&y) {
                            out.push(Ev::Diff {
                                kind: "grown-after-optimize",
                                detail: json!({"rules": rules, "added_through_add_filter": grown[rules.len()..].to_vec(), "tags": tags, "url": q.url, "source": q.source, "type": q.rtype,
                                    "optimised_then_grown": x.to_json(), "never_optimised_twin": y.to_json()}),
                            });
                        } else {
                            out.push(Ev::Ok { nt: false, h: 0, sample: json!(null), by_fused: false });
                        }
                    }
                }
            }
            (out, fused)
        });
        match outcome {
            Err(sig) => ctx.violation(sub, idx, &format!("C05:{}", sig), json!({})),
            Ok((evs, fused)) => {
                ctx.obs("fused_rules_seen", fused as i64);
                if fused > 0 {
                    ctx.obs("lists_with_fusion", 1);
                }
                for ev in evs {
                    ctx.eval();
                    match ev {
                        Ev::Tie => ctx.obs("answers_differing_only_by_an_equal_priority_redirect_tie", 1),
                        Ev::Ok { nt, h, sample, by_fused } => {
                            if nt {
                                ctx.nontrivial(h);
                                ctx.sample(|| sample);
                            }
                            if by_fused {
                                ctx.obs("verdicts_produced_by_fused_rule", 1);
                            }
                        }
                        Ev::Diff { kind, detail } => ctx.violation(sub, idx, &format!("C05:{}", kind), detail),
                    }
                }
            }
        }
    }
}

/// Thorough: corpus engine twins over the recorded requests.
fn corpus(ctx: &mut Ctx) {
    let sub = "corpus";
    let mut rules: Vec<String> = vec![];
    for p in [
        "/repo/data/easylist.to/easylist/easylist.txt",
        "/repo/data/easylist.to/easylist/easyprivacy.txt",
        "/repo/data/uBlockOrigin/filters.txt",
        "/repo/data/uBlockOrigin/unbreak.txt",
    ] {
        if let Ok(s) = std::fs::read_to_string(p) {
            rules.extend(s.lines().map(|l| l.to_string()));
        }
    }
    let reqs: Vec<(String, String, String)> = std::fs::read_to_string("/repo/data/matching-test-requests.json")
        .ok()
        .and_then(|s| serde_json::from_str::<serde_json::Value>(&s).ok())
        .and_then(|v| v.as_array().cloned())
        .map(|a| {
            a.iter()
                .filter_map(|o| {
                    Some((
                        o.get("url")?.as_str()?.to_string(),
                        o.get("sourceUrl")?.as_str()?.to_string(),
                        o.get("type")?.as_str()?.to_string(),
                    ))
                })
                .collect()
        })
        .unwrap_or_default();
    if rules.is_empty() || reqs.is_empty() {
        ctx.note("corpus unavailable; skipped".into());
        return;
    }
    // every shard builds both engines (0.5 s each) and takes its share of the requests
    let built = guarded(|| {
        (
            build_engine(&rules, ParseOptions::default(), true, true),
            build_engine(&rules, ParseOptions::default(), true, false),
        )
    });
    let (e_opt, e_raw) = match built {
        Ok(x) => x,
        Err(sig) => {
            ctx.violation(sub, 0, &format!("C05:{}", sig), json!({}));
            return;
        }
    };
    ctx.obs_max("max_corpus_fused_rules", fused_rules(&e_opt) as i64);
    for (i, (url, src, ty)) in reqs.iter().enumerate() {
        let idx = i as u64;
        if ctx.stop() {
            break;
        }
        if !ctx.begin_case(sub, idx) {
            continue;
        }
        let r = guarded(|| {
            let rq = Request::new(url, src, ty).ok()?;
            Some((ask(&e_opt, &rq), ask(&e_raw, &rq)))
        });
        match r {
            Err(sig) => ctx.violation(sub, idx, &format!("C05:{}", sig), json!({"url": url})),
            Ok(None) => {}
            Ok(Some((a, b))) => {
                ctx.eval();
                ctx.obs("corpus_evals", 1);
                if !a.is_default() {
                    ctx.nontrivial(fnv(&format!("corpus|{}|{}|{}", url, src, ty)));
                }
                if !a.same_verdict(&b) {
                    ctx.violation(
                        sub,
                        idx,
                        "C05:corpus-twins",
                        json!({"url": url, "source": src, "type": ty, "optimized": a.to_json(), "unoptimized": b.to_json()}),
                    );
                }
            }
        }
    }
}
