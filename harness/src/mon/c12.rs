//! C12 — requests are normalised consistently: host, party and scheme classification.
//!
//! (a) totality of Request::new / preparsed / parse_url on mutated URLs
//! (b) for results that parse: hostname == host component extracted independently from the
//!     normalised URL, ASCII; IDN hosts in punycode; third-party == registrable domains differ (hand
//!     written ground truth table; addr crate as second opinion) or source absent/unparseable;
//!     ws/wss force the websocket type; only http/https/ws/wss are eligible for matching
//! (c) preparsed(fields of the `new` result) behaves identically

use crate::mon::common::{ask, build_engine};
use crate::report::{guarded, Ctx};
use crate::rng::{fnv, Rng};
use adblock::lists::ParseOptions;
use adblock::request::{Request, RequestType};
use adblock::url_parser::parse_url;
use serde_json::json;

/// (host as written, normalised host, registrable domain) — ground truth written by hand.
const HOSTS: &[(&str, &str, &str)] = &[
    ("example.com", "example.com", "example.com"),
    ("www.example.com", "www.example.com", "example.com"),
    ("a.b.example.com", "a.b.example.com", "example.com"),
    ("example.co.uk", "example.co.uk", "example.co.uk"),
    ("x.example.co.uk", "x.example.co.uk", "example.co.uk"),
    ("other.org", "other.org", "other.org"),
    ("sub.other.org", "sub.other.org", "other.org"),
    ("foo.bar", "foo.bar", "foo.bar"),
    ("a.foo.bar", "a.foo.bar", "foo.bar"),
    ("a.github.io", "a.github.io", "a.github.io"),
    ("b.github.io", "b.github.io", "b.github.io"),
    ("x.a.github.io", "x.a.github.io", "a.github.io"),
    ("bücher.example", "xn--bcher-kva.example", "xn--bcher-kva.example"),
    ("shop.bücher.example", "shop.xn--bcher-kva.example", "xn--bcher-kva.example"),
    ("日本.jp", "xn--wgv71a.jp", "xn--wgv71a.jp"),
    ("1.2.3.4", "1.2.3.4", "1.2.3.4"),
    // different addresses that share their last two octets: an address is its own site
    ("10.0.1.1", "10.0.1.1", "10.0.1.1"),
    ("192.168.1.1", "192.168.1.1", "192.168.1.1"),
    ("[::1]", "[::1]", "[::1]"),
    ("[2001:db8::1]", "[2001:db8::1]", "[2001:db8::1]"),
    ("localhost", "localhost", "localhost"),
    // string-suffix traps: host text ends with another host's registrable domain without a label boundary
    ("notexample.com", "notexample.com", "notexample.com"),
    ("cdn.notexample.com", "cdn.notexample.com", "notexample.com"),
    ("xexample.co.uk", "xexample.co.uk", "xexample.co.uk"),
    ("another.org", "another.org", "another.org"),
    ("afoo.bar", "afoo.bar", "afoo.bar"),
    // hosts that are themselves public suffixes
    ("github.io", "github.io", "github.io"),
    ("co.uk", "co.uk", "co.uk"),
    ("com", "com", "com"),
];

const SCHEMES: &[&str] = &["http", "https", "ws", "wss", "ftp", "data", "file", "blob", "about", "chrome-extension", "HTTP", "Https"];
const PATHS: &[&str] = &["/", "/path", "/path/ad.js?x=1", "/a b", "/ü", "/%41", "/p#frag", "?q", "#f", "", "/a\\b", "//double", "/.././x", "/;p=1", "/\u{1}", "/\t"];
const HOSTILE: &[&str] = &["é", "€", "😀", "\u{200d}", "İ", "ß", "K", "\t", "\n", " ", "@", ":", "/", "\\", "?", "#", "%", "[", "]", ".", "..", "\u{0}", "\u{7f}", "%00", "%2e", "xn--", "۰", "。"];

fn supported(scheme: &str) -> bool {
    matches!(scheme, "http" | "https" | "ws" | "wss")
}

/// Independent host extraction from a normalised URL string.
pub fn extract_host(url: &str) -> Option<&str> {
    let colon = url.find(':')?;
    let rest = &url[colon + 1..];
    let rest = rest.strip_prefix("//")?;
    let end = rest.find(|c| c == '/' || c == '?' || c == '#').unwrap_or(rest.len());
    let auth = &rest[..end];
    let auth = match auth.rfind('@') {
        Some(i) => &auth[i + 1..],
        None => auth,
    };
    if auth.starts_with('[') {
        let close = auth.find(']')?;
        return Some(&auth[..close + 1]);
    }
    // everything after the first ':' is the port (whether or not it is a valid one)
    Some(match auth.find(':') {
        Some(i) => &auth[..i],
        None => auth,
    })
}

fn battery_rules() -> Vec<String> {
    vec![
        "||example.com^$third-party".to_string(),
        "/path/ad.js$~third-party".to_string(),
        "||example.co.uk^".to_string(),
        "/path$websocket".to_string(),
        "||other.org^$script,domain=example.com".to_string(),
        "||xn--bcher-kva.example^".to_string(),
        "|ftp://".to_string(),
        "*$image".to_string(),
        "||1.2.3.4^".to_string(),
        "||github.io^$third-party".to_string(),
        "||foo.bar^$removeparam=x".to_string(),
        "$csp=script-src 'none'".to_string(),
        "||example.com^$csp=worker-src 'none'".to_string(),
    ]
}

struct Out {
    evals: u64,
    nt: Option<u64>,
    viol: Vec<(String, serde_json::Value)>,
    parsed: bool,
    sample: Option<serde_json::Value>,
}

fn check_plain(e: &adblock::Engine, r: &mut Rng) -> Out {
    let mut out = Out { evals: 0, nt: None, viol: vec![], parsed: false, sample: None };
    let (h_in, h_norm, h_reg) = *r.pick(HOSTS);
    let scheme = r.ps(SCHEMES);
    let userinfo = r.ps(&["", "", "", "", "user@", "user:pw@", "u%40x@", "ü@", "üser@", "señor:contraseña@", "名前:パスワード@", "user:p🔒@", "a@b@"]);
    let port = r.ps(&["", "", "", ":80", ":443", ":8080", ":"]);
    let path = r.ps(PATHS);
    let is_ip = h_in.starts_with('[') || h_in.starts_with(|c: char| c.is_ascii_digit());
    let host_spelt = if !is_ip && r.chance(1, 8) { format!("{}.", h_in) } else { h_in.to_string() };
    let trailing_dot = host_spelt.ends_with('.') && !h_in.starts_with('[');
    // special schemes tolerate any number of slashes or backslashes after the colon
    let special = matches!(scheme.to_ascii_lowercase().as_str(), "http" | "https" | "ws" | "wss" | "ftp");
    let sep = if special && r.chance(1, 6) { r.ps(&[":/", ":", ":\\\\", ":///", ":\\/"]) } else { "://" };
    let url = format!("{}{}{}{}{}{}", scheme, sep, userinfo, host_spelt, port, path);
    let (s_in, s_norm, s_reg) = *r.pick(HOSTS);
    let source = match r.below(6) {
        0 => String::new(),
        1 => "not a url".to_string(),
        2 => format!("https://{}/", h_in),
        _ => format!("https://{}/page", s_in),
    };
    let same_as_req = source == format!("https://{}/", h_in);
    let rtype = r.ps(&["script", "image", "document", "xhr", "websocket", "other", ""]);
    let rq = match Request::new(&url, &source, rtype) {
        Ok(rq) => rq,
        Err(e) => {
            // building a request may fail, but not for a URL of a special scheme that the `url`
            // crate reads with exactly the host that was written
            if special && userinfo.is_empty() && h_in.is_ascii() {
                if let Ok(u) = url::Url::parse(&url) {
                    if u.host_str() == Some(h_norm) {
                        out.evals += 1;
                        out.viol.push(("C12:well-formed-url-rejected".into(), json!({"url": url, "error": format!("{:?}", e), "url_crate_host": u.host_str()})));
                    }
                }
            }
            return out;
        }
    };
    out.parsed = true;
    out.evals += 1;
    let scheme_l = scheme.to_ascii_lowercase();
    let detail = |what: &str, rq: &Request| json!({"what": what, "url": url, "source": source, "type": rtype,
        "request": {"url": rq.url, "hostname": rq.hostname, "is_third_party": rq.is_third_party, "is_supported": rq.is_supported, "is_http": rq.is_http, "is_https": rq.is_https, "type": format!("{:?}", rq.request_type)}});
    // host
    let want_host = if trailing_dot && !h_in.starts_with(|c: char| c.is_ascii_digit()) { format!("{}.", h_norm) } else { h_norm.to_string() };
    if h_in.starts_with(|c: char| c.is_ascii_digit()) && trailing_dot {
        // "1.2.3.4." : IPv4 with trailing dot, normalisation differs between URL libraries; only consistency is judged
    } else if rq.hostname != want_host {
        out.viol.push(("C12:hostname-differs-from-expected-host".into(), detail(&format!("expected host {}", want_host), &rq)));
    }
    if extract_host(&rq.url) != Some(rq.hostname.as_str()) {
        out.viol.push(("C12:hostname-is-not-the-host-of-the-normalised-url".into(), detail(&format!("host component of normalised url = {:?}", extract_host(&rq.url)), &rq)));
    }
    if !rq.hostname.is_ascii() {
        out.viol.push(("C12:hostname-not-ascii".into(), detail("", &rq)));
    }
    // url crate as a second opinion on the plain sub-domain
    if userinfo.is_empty() && h_in.is_ascii() && supported(&scheme_l) {
        if let Ok(u) = url::Url::parse(&url) {
            if let Some(hs) = u.host_str() {
                if hs != rq.hostname {
                    out.viol.push(("C12:hostname-differs-from-url-crate".into(), detail(&format!("url crate host_str = {}", hs), &rq)));
                }
            }
        }
    }
    // scheme classification
    if rq.is_supported != supported(&scheme_l) {
        out.viol.push(("C12:is_supported-misclassified".into(), detail("", &rq)));
    }
    if rq.is_http != (scheme_l == "http") || rq.is_https != (scheme_l == "https") {
        out.viol.push(("C12:is_http-is_https-misclassified".into(), detail("", &rq)));
    }
    if (scheme_l == "ws" || scheme_l == "wss") && rq.request_type != RequestType::Websocket {
        out.viol.push(("C12:websocket-scheme-does-not-force-websocket-type".into(), detail("", &rq)));
    }
    // party
    let source_parses = !(source.is_empty() || source == "not a url");
    let want_third = if !source_parses {
        true
    } else if same_as_req {
        false
    } else {
        // registrable domains; a trailing dot is part of the host as reported
        let req_reg = if trailing_dot { format!("{}.", h_reg) } else { h_reg.to_string() };
        req_reg != s_reg
    };
    let _ = s_norm;
    if !(same_as_req && trailing_dot) && rq.is_third_party != want_third {
        out.viol.push(("C12:third-party-misclassified".into(), detail(&format!("expected third-party = {} (registrable domains {} vs {})", want_third, h_reg, s_reg), &rq)));
    }
    // unsupported => default verdict
    let a = ask(e, &rq);
    if !rq.is_supported {
        let b = e.check_network_request(&rq);
        if b.matched || b.redirect.is_some() || b.rewritten_url.is_some() || b.exception.is_some() || b.important || a.csp.is_some() {
            out.viol.push(("C12:unsupported-scheme-request-was-matched".into(), detail("", &rq)));
        }
    }
    // (c) preparsed from the fields of the `new` result
    let src_host = if source_parses { parse_url(&source).map(|p| p.hostname().to_string()).unwrap_or_default() } else { String::new() };
    let p = Request::preparsed(&rq.url, &rq.hostname, &src_host, rtype, rq.is_third_party);
    let same_fields = p.request_type == rq.request_type
        && p.is_http == rq.is_http
        && p.is_https == rq.is_https
        && p.is_supported == rq.is_supported
        && p.is_third_party == rq.is_third_party
        && p.url == rq.url
        && p.hostname == rq.hostname
        && p.source_hostname_hashes == rq.source_hostname_hashes
        && p.get_tokens() == rq.get_tokens();
    if !same_fields {
        out.viol.push(("C12:preparsed-fields-differ".into(), json!({"url": url, "source": source, "type": rtype, "new": format!("{:?}", rq), "preparsed": format!("{:?}", p)})));
    }
    let b = ask(e, &p);
    let raw_is_normalised = url == rq.url;
    let same = if raw_is_normalised { a.same_verdict(&b) } else { a.matched == b.matched && a.important == b.important && a.exception == b.exception && a.redirect == b.redirect && a.csp == b.csp };
    if !same {
        out.viol.push(("C12:preparsed-verdict-differs".into(), json!({"url": url, "source": source, "type": rtype, "new": a.to_json(), "preparsed": b.to_json()})));
    }
    out.evals += 2;
    if source_parses {
        out.nt = Some(fnv(&format!("{}|{}|{}", url, source, rtype)));
        out.sample = Some(detail("sample", &rq));
    }
    out
}

fn mutate(r: &mut Rng, s: &str) -> String {
    let mut s = s.to_string();
    for _ in 0..1 + r.below(3) {
        let mut at = r.below(s.len() + 1);
        while !s.is_char_boundary(at) {
            at -= 1;
        }
        match r.below(4) {
            0 | 1 => s.insert_str(at, r.ps(HOSTILE)),
            2 => {
                if at < s.len() {
                    let mut end = at + 1;
                    while !s.is_char_boundary(end) {
                        end += 1;
                    }
                    s.replace_range(at..end, "");
                }
            }
            _ => {
                let piece: String = s[at..].chars().take(1 + r.below(4)).collect();
                s.insert_str(at, &piece);
            }
        }
    }
    s
}

fn check_mutated(e: &adblock::Engine, r: &mut Rng) -> Out {
    let mut out = Out { evals: 1, nt: None, viol: vec![], parsed: false, sample: None };
    let (h_in, _, _) = *r.pick(HOSTS);
    let base = format!("{}://{}{}{}{}", r.ps(SCHEMES), r.ps(&["", "", "user:pw@"]), h_in, r.ps(&["", ":8080"]), r.ps(PATHS));
    let url = mutate(r, &base);
    let src_base = format!("https://{}/", r.pick(HOSTS).0);
    let source = if r.chance(1, 2) { mutate(r, &src_base) } else { src_base };
    let rtype = r.ps(&["script", "image", "document", "", "weird\u{0}type"]);
    let _ = parse_url(&url);
    if let Ok(rq) = Request::new(&url, &source, rtype) {
        out.parsed = true;
        // consistency only: hostname is the host of the normalised URL, ASCII; websocket forcing;
        // eligibility; preparsed equivalence
        let norm_host = extract_host(&rq.url);
        let bracket_ok = (!rq.hostname.contains('[') && !rq.hostname.contains(']'))
            || (rq.hostname.starts_with('[') && rq.hostname.ends_with(']') && rq.hostname.matches(']').count() == 1 && rq.hostname.matches('[').count() == 1);
        let plain_authority = !rq.url.contains('\\') && !rq.url.contains('\t') && !rq.url.contains('\n') && bracket_ok;
        if plain_authority && norm_host != Some(rq.hostname.as_str()) {
            out.viol.push(("C12:hostname-is-not-the-host-of-the-normalised-url".into(), json!({"url": url, "normalised": rq.url, "hostname": rq.hostname, "host_component": norm_host})));
        }
        if !rq.hostname.is_ascii() {
            out.viol.push(("C12:hostname-not-ascii".into(), json!({"url": url, "normalised": rq.url, "hostname": rq.hostname})));
        }
        // second opinion on authority splitting (userinfo, backslashes): for http(s)/ws(s) URLs that
        // the url crate accepts with a *domain* host, the hosts must agree
        if (url.contains('\\') || url.contains('@')) && !url.contains('%') && !url.contains(|c: char| c == '\t' || c == '\n' || c == '\r') && (url.starts_with("http") || url.starts_with("ws")) {
            if let Ok(u) = url::Url::parse(&url) {
                if let Some(url::Host::Domain(d)) = u.host() {
                    if matches!(u.scheme(), "http" | "https" | "ws" | "wss") && !d.eq_ignore_ascii_case(&rq.hostname) {
                        out.viol.push(("C12:hostname-differs-from-url-crate".into(), json!({"url": url, "normalised": rq.url, "hostname": rq.hostname, "url_crate_host": d})));
                    }
                }
            }
        }
        let scheme = rq.url.split(':').next().unwrap_or("").to_string();
        if rq.is_supported != supported(&scheme) {
            out.viol.push(("C12:is_supported-misclassified".into(), json!({"url": url, "normalised": rq.url, "is_supported": rq.is_supported})));
        }
        if (scheme == "ws" || scheme == "wss") && rq.request_type != RequestType::Websocket {
            out.viol.push(("C12:websocket-scheme-does-not-force-websocket-type".into(), json!({"url": url, "normalised": rq.url})));
        }
        let a = ask(e, &rq);
        if !rq.is_supported && !a.is_default() {
            out.viol.push(("C12:unsupported-scheme-request-was-matched".into(), json!({"url": url, "normalised": rq.url, "verdict": a.to_json()})));
        }
        let src_host = parse_url(&source).map(|p| p.hostname().to_string()).unwrap_or_default();
        let p = Request::preparsed(&rq.url, &rq.hostname, &src_host, rtype, rq.is_third_party);
        let same_fields = p.request_type == rq.request_type
            && p.is_http == rq.is_http
            && p.is_https == rq.is_https
            && p.is_supported == rq.is_supported
            && p.url == rq.url
            && p.hostname == rq.hostname
            && p.source_hostname_hashes == rq.source_hostname_hashes
            && p.get_tokens() == rq.get_tokens();
        if !same_fields {
            out.viol.push(("C12:preparsed-fields-differ".into(), json!({"url": url, "source": source, "new": format!("{:?}", rq), "preparsed": format!("{:?}", p)})));
        }
        out.evals += 1;
        out.nt = Some(fnv(&format!("m|{}|{}", url, source)));
    }
    out
}

/// The pre-parsed constructor takes whatever URL text the embedder hands over, including URLs
/// whose scheme has no `//` (data:, blob:, about:, javascript:, mailto:) and scheme-less text:
/// only http, https, ws and wss are eligible for matching.
pub fn preparsed_schemes(ctx: &mut Ctx, prop: &str) {
    let sub = "preparsed";
    let rules: Vec<String> = vec![";base64,".into(), "/player-ads/".into(), "blank".into(), "void".into(), "*$image".into(), "$csp=script-src 'none'".into(), "||example.com^".into(), "*$removeparam=x".into()];
    let e = build_engine(&rules, ParseOptions::default(), true, true);
    let urls: &[(&str, bool)] = &[
        ("data:image/png;base64,AAAA", false), ("blob:https://example.com/player-ads/1", false), ("about:blank", false), ("javascript:void(0)", false),
        ("mailto:a@example.com", false), ("chrome-extension://abc/player-ads/x.js", false), ("moz-extension://abc/x", false), ("web+ap://example.com/x", false),
        ("view-source:https://example.com/", false), ("ftp://example.com/player-ads/", false), ("file:///player-ads/x", false), ("DATA:text/html,x", false),
        ("https://example.com/player-ads/?x=1", true), ("http://example.com/", true), ("ws://example.com/", true), ("wss://example.com/blank", true),
        // (upper-case schemes are not judged here: pre-parsed parts come out of a URL parser, which lower-cases the scheme)
    ];
    let mut idx = 0u64;
    for (url, eligible) in urls {
        for host in ["", "example.com", "abc"] {
            for ty in ["image", "document", "script", "websocket", "other"] {
                idx += 1;
                if !ctx.begin_case(sub, idx) {
                    continue;
                }
                let r = guarded(|| {
                    let rq = Request::preparsed(url, host, "other.org", ty, true);
                    let a = ask(&e, &rq);
                    let s = e.check_network_request_subset(&rq, true, true);
                    (rq.is_supported, a, s.matched || s.redirect.is_some() || s.rewritten_url.is_some() || s.exception.is_some())
                });
                ctx.eval();
                match r {
                    Err(sig) => ctx.violation(sub, idx, &format!("{}:{}", prop, sig), json!({"url": url})),
                    Ok((supported, a, subset_hit)) => {
                        if *eligible {
                            ctx.nontrivial(fnv(&format!("{}|{}|{}", url, host, ty)));
                        }
                        if supported != *eligible {
                            ctx.violation(sub, idx, &format!("{}:is_supported-misclassified", prop), json!({"url": url, "constructor": "preparsed", "is_supported": supported}));
                        }
                        if !*eligible && (!a.is_default() || subset_hit) {
                            ctx.violation(sub, idx, &format!("{}:unsupported-scheme-request-was-matched", prop), json!({"url": url, "constructor": "preparsed", "hostname": host, "type": ty, "verdict": a.to_json()}));
                        }
                    }
                }
            }
        }
    }
}

pub fn run(ctx: &mut Ctx) {
    preparsed_schemes(ctx, "C12");
    let e = build_engine(&battery_rules(), ParseOptions::default(), true, true);
    for (sub, cases) in [("plain", ctx.n(400_000, 20_000_000)), ("mutated", ctx.n(400_000, 20_000_000))] {
        for idx in 0..cases {
            if ctx.stop() {
                break;
            }
            if !ctx.begin_case(sub, idx) {
                continue;
            }
            let seed = ctx.seed;
            let res = guarded(|| {
                let mut r = Rng::for_case(seed, &format!("c12.{}", sub), idx);
                if sub == "plain" {
                    check_plain(&e, &mut r)
                } else {
                    check_mutated(&e, &mut r)
                }
            });
            match res {
                Err(sig) => {
                    // regenerate the inputs for the witness
                    ctx.violation(sub, idx, &format!("C12:{}", sig), json!({"note": "re-run with --only-case to see inputs"}));
                }
                Ok(out) => {
                    ctx.evals(out.evals);
                    if out.parsed {
                        ctx.obs(&format!("{}_urls_that_parse", sub), 1);
                    }
                    if let Some(h) = out.nt {
                        ctx.nontrivial(h);
                    }
                    if let Some(s) = out.sample {
                        ctx.sample_tagged(sub, || s);
                    }
                    for (sig, d) in out.viol {
                        ctx.violation(sub, idx, &sig, d);
                    }
                }
            }
        }
    }
}
