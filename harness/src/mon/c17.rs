//! C17 — generic class/id lookup returns exactly the unexcepted generic selectors.
//!
//! Model: a generic hide selector whose leading simple selector is `.k` / `#k` (after CSS
//! unescaping) is reachable through the lookup with key k; everything else is reachable through
//! the per-site resources (misc). Monitors: (a) lookup(classes, ids, exceptions) == model;
//! (b) partition: every generic selector is reachable exactly one way.

use crate::mon::c08::build;
use crate::oracle::cosmetic::key_of;
use crate::report::{guarded, Ctx};
use crate::rng::{fnv, Rng};
use serde_json::json;
use std::collections::{BTreeSet, HashSet};

const IDENTS: &[&str] = &[
    "ad", "ad2", "ban", "c1", "x", "ad-box", "_u", "ünï", "日本", "a\\:b", "\\31 23", "w\\/h", "\\.dot", "\\41 B", "🎉", "a\\🎉", "-x", "a_b",
];
const TAILS: &[&str] = &["", "", "", " > div", ".c2", ":not(.y)", " .x", "[href]", ", .other", "#id2", "::before", ":hover"];
const MISC: &[&str] = &["div[ad]", "a[href^=\"x\"]", "span", "div > .ad", "*", "[data-x]", "div.ad", "body #ban", ":root .c1"];

fn gen_selector(r: &mut Rng) -> String {
    if r.chance(1, 5) {
        return r.ps(MISC).to_string();
    }
    format!("{}{}{}", r.ps(&[".", "#"]), r.ps(IDENTS), r.ps(TAILS))
}

pub fn run(ctx: &mut Ctx) {
    let sub = "lookup";
    let cases = ctx.n(400_000, 60_000_000);
    for idx in 0..cases {
        if ctx.stop() {
            break;
        }
        if !ctx.begin_case(sub, idx) {
            continue;
        }
        let seed = ctx.seed;
        let out = guarded(|| {
            let mut r = Rng::for_case(seed, "c17", idx);
            let n = 1 + r.below(14);
            let mut sels: Vec<String> = (0..n).map(|_| gen_selector(&mut r)).collect();
            // refinements: a selector that textually extends another one in the list
            for _ in 0..r.below(4) {
                let base = r.pick(&sels).clone();
                sels.push(format!("{}{}", base, r.ps(&[" > img", " .y", " + p", " ~ b", "-wide", ".z", " div", ">i"])));
            }
            let mut lines: Vec<String> = sels
                .iter()
                .map(|s| if r.chance(1, 6) { format!("~example.com##{}", s) } else if r.chance(1, 8) { format!("#?#{}", s) } else { format!("##{}", s) })
                .collect();
            // non-generic rules must not leak into the generic stores
            // rules with an action are never generic hide rules, whatever their locations
            for k in 0..r.below(3) {
                let loc = r.ps(&["~example.com", "~example.com,~shop.*", "", "~video.*"]);
                let act = r.ps(&[":style(color: red)", ":remove()", ":remove-class(locked)", ":remove-attr(data-x)"]);
                let sel = r.ps(&[".act", "#act", ".act > .inner"]);
                if !loc.is_empty() {
                    lines.push(format!("{}##{}{}{}", loc, sel, k, act));
                }
            }
            // (one list in five has no site-specific rule at all, and then possibly nothing but
            // un-keyed generic selectors)
            let bare = r.chance(1, 5);
            if bare && r.chance(1, 2) {
                lines.retain(|l| l.starts_with("##") && key_of(&l[2..]).is_none());
                sels.retain(|s| key_of(s).is_none() && lines.iter().any(|l| &l[2..] == s));
            }
            if !bare {
                lines.push("example.org##.site-only".into());
                lines.push("example.org#@#.ad".into());
            }
            let e = build(&lines, r.chance(1, 2), r.chance(1, 2), 0);
            // one engine in three is replaced by its twin loaded from serialized bytes
            let e = if r.chance(1, 3) { crate::mon::c08::roundtrip(&e, r.chance(1, 2)).expect("round trip of own buffer") } else { e };
            let mut e = e;
            if r.chance(1, 4) {
                // a rejected load must leave the engine as it was
                let junk: [&[u8]; 4] = [b"", b"\xd1\xd9\x3a\xaf\x07", b"garbage", b"\xd1\xd9\x3a\xaf\x00\xdc\x00\x13\x91"];
                let _ = e.deserialize(junk[r.below(4)]);
            }
            sels.sort();
            sels.dedup();
            let generic: BTreeSet<String> = sels.iter().cloned().collect();
            // what the page sees on a host none of the rules is scoped to
            let page = e.url_cosmetic_resources("https://unrelated.net/");
            let misc_got: BTreeSet<String> = page.hide_selectors.iter().cloned().collect();
            // every key of every selector, plus decoys
            let mut classes: BTreeSet<String> = BTreeSet::new();
            let mut ids: BTreeSet<String> = BTreeSet::new();
            for s in &generic {
                if let Some((k, key, _)) = key_of(s) {
                    if k == '.' { classes.insert(key); } else { ids.insert(key); }
                }
            }
            let mut sigs: Vec<(String, serde_json::Value)> = vec![];
            let all_classes: Vec<String> = classes.iter().cloned().chain(["site-only".to_string(), "nope".to_string(), "act0".to_string(), "act1".to_string(), "act".to_string()]).collect();
            let all_ids: Vec<String> = ids.iter().cloned().chain(["nope".to_string(), "act0".to_string(), "act1".to_string()]).collect();
            let no_exc: HashSet<String> = HashSet::new();
            let looked_all: Vec<String> = e.hidden_class_id_selectors(&all_classes, &all_ids, &no_exc);
            let looked: BTreeSet<String> = looked_all.iter().cloned().collect();
            // (b) partition
            let mut n_keyed = 0;
            let mut n_misc = 0;
            for s in &generic {
                let via_lookup = looked.contains(s);
                let via_misc = misc_got.contains(s);
                match key_of(s) {
                    Some((_, _, false)) => {
                        n_keyed += 1;
                        if !via_lookup || via_misc {
                            sigs.push(("C17:keyed-selector-not-reachable-exactly-through-lookup".into(), json!({"selector": s, "via_lookup": via_lookup, "via_per_site": via_misc})));
                        }
                    }
                    Some((_, _, true)) => {
                        if via_lookup == via_misc {
                            sigs.push(("C17:selector-reachable-both-ways-or-neither".into(), json!({"selector": s, "via_lookup": via_lookup, "via_per_site": via_misc})));
                        }
                    }
                    None => {
                        n_misc += 1;
                        if via_lookup || !via_misc {
                            sigs.push(("C17:unkeyed-selector-not-reachable-exactly-through-per-site-resources".into(), json!({"selector": s, "via_lookup": via_lookup, "via_per_site": via_misc})));
                        }
                    }
                }
            }
            for s in looked.iter().chain(misc_got.iter()) {
                if !generic.contains(s) {
                    sigs.push(("C17:non-generic-selector-returned".into(), json!({"selector": s})));
                }
            }
            // (a) exactness on random subsets with exceptions
            for _ in 0..3 {
                let cs: Vec<String> = all_classes.iter().filter(|_| r.chance(1, 2)).cloned().collect();
                let is: Vec<String> = all_ids.iter().filter(|_| r.chance(1, 2)).cloned().collect();
                let exc: HashSet<String> = generic.iter().filter(|_| r.chance(1, 5)).cloned().collect();
                let got: BTreeSet<String> = e.hidden_class_id_selectors(&cs, &is, &exc).into_iter().collect();
                let mut want_min: BTreeSet<String> = BTreeSet::new(); // must be present
                let mut want_max: BTreeSet<String> = BTreeSet::new(); // may be present
                for s in &generic {
                    if exc.contains(s) {
                        continue;
                    }
                    if let Some((k, key, exotic)) = key_of(s) {
                        let given = if k == '.' { cs.contains(&key) } else { is.contains(&key) };
                        if given {
                            want_max.insert(s.clone());
                            if !exotic && looked.contains(s) {
                                want_min.insert(s.clone());
                            } else if looked.contains(s) {
                                want_min.insert(s.clone());
                            }
                        }
                    }
                }
                if !want_min.is_subset(&got) || !got.is_subset(&want_max) {
                    sigs.push((
                        "C17:lookup-result-differs-from-model".into(),
                        json!({"classes": cs, "ids": is, "exceptions": exc.iter().collect::<Vec<_>>(), "engine": got, "model_must": want_min, "model_may": want_max}),
                    ));
                }
            }
            let nt = n_keyed >= 1 && n_misc >= 1;
            (sigs, nt, fnv(&format!("{:?}", lines)), json!({"rules": lines, "lookup_all_keys": looked, "per_site_generic": misc_got}))
        });
        match out {
            Err(sig) => ctx.violation(sub, idx, &format!("C17:{}", sig), json!({})),
            Ok((sigs, nt, h, detail)) => {
                ctx.evals(4);
                if nt {
                    ctx.nontrivial(h);
                }
                if sigs.is_empty() {
                    if nt {
                        ctx.sample(|| detail);
                    }
                } else {
                    for (s, extra) in sigs {
                        let mut d = detail.clone();
                        d.as_object_mut().unwrap().insert("witness".into(), extra);
                        ctx.violation(sub, idx, &s, d);
                    }
                }
            }
        }
    }
}
