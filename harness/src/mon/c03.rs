//! C03 — rule options restrict matching exactly as the option semantics specify.
//!
//! O-options: an interpreter of an option AST (type atoms ±, document, party, domain= lists,
//! important, match-case, scheme-only patterns) against a request description (type alias, scheme,
//! party relation, initiator host or absent). The pattern always matches the request URL, so the
//! options alone decide. Compared with the per-rule matcher and a single-rule engine.

use crate::report::{guarded, Ctx};
use crate::rng::{fnv, Rng};
use adblock::filters::network::{NetworkFilter, NetworkMatchable};
use adblock::regex_manager::RegexManager;
use adblock::request::Request;
use adblock::Engine;
use serde_json::json;

const TYPES: &[&str] = &[
    "image", "media", "object", "other", "ping", "script", "stylesheet", "subdocument", "websocket",
    "xmlhttprequest", "font",
];

/// request type string -> canonical type (reference table from the WebRequest ResourceType docs
/// and the crate's documented aliases)
fn alias(t: &str) -> &'static str {
    match t {
        "beacon" | "ping" => "ping",
        "csp_report" => "csp",
        "document" | "main_frame" => "document",
        "font" => "font",
        "image" | "imageset" => "image",
        "media" => "media",
        "object" | "object_subrequest" => "object",
        "script" => "script",
        "stylesheet" => "stylesheet",
        "sub_frame" | "subdocument" => "subdocument",
        "websocket" => "websocket",
        "xhr" | "xmlhttprequest" => "xmlhttprequest",
        _ => "other",
    }
}

fn opt_spelling(r: &mut Rng, t: &str) -> &'static str {
    let alt = r.chance(1, 3);
    match t {
        "xmlhttprequest" => if alt { "xhr" } else { "xmlhttprequest" },
        "stylesheet" => if alt { "css" } else { "stylesheet" },
        "subdocument" => if alt { "frame" } else { "subdocument" },
        "ping" => if alt { "beacon" } else { "ping" },
        "object" => if alt { "object-subrequest" } else { "object" },
        "image" => "image",
        "media" => "media",
        "other" => "other",
        "script" => "script",
        "websocket" => "websocket",
        "font" => "font",
        _ => "other",
    }
}

const REQ_TYPES: &[&str] = &[
    "beacon", "csp_report", "document", "main_frame", "font", "image", "imageset", "media", "object",
    "object_subrequest", "ping", "script", "stylesheet", "sub_frame", "subdocument", "websocket",
    "xhr", "xmlhttprequest", "other", "speculative", "fetch", "weird",
];

#[derive(Clone, Copy, PartialEq, Debug)]
enum Kind {
    Plain,
    HostCaret,
    Exception,
    WsScheme,
    HttpScheme,
    HttpsScheme,
    /// `/adpath$removeparam=p,...`: implied types are document, subdocument and xhr; negated
    /// types do not switch on "all network types"; observed through the rewrite, never blocks
    RemoveParam,
    /// `/adpath$csp=script-src x,...`: document and subdocument requests only; observed through
    /// the injected policy, never blocks
    Csp,
    /// `/adpath$redirect=noop.js,...`: options as for a plain rule; observed through `matched`
    /// and the presence of the redirect
    Redirect,
}

const KINDS: [Kind; 9] = [
    Kind::Plain,
    Kind::HostCaret,
    Kind::Exception,
    Kind::WsScheme,
    Kind::HttpScheme,
    Kind::HttpsScheme,
    Kind::RemoveParam,
    Kind::Csp,
    Kind::Redirect,
];

#[derive(Clone, Debug, Default)]
struct Opts {
    pos: Vec<&'static str>,
    neg: Vec<&'static str>,
    doc: bool,
    party: &'static str,
    included: Vec<String>,
    excluded: Vec<String>,
    important: bool,
}

struct ReqDesc<'a> {
    rtype: &'a str,
    scheme: &'a str,
    third: bool,
    source_host: Option<&'a str>,
}

fn suffixes(host: &str) -> Vec<&str> {
    let mut v = vec![host];
    for (i, c) in host.char_indices() {
        if c == '.' && i + 1 < host.len() {
            v.push(&host[i + 1..]);
        }
    }
    v
}

fn reference(kind: Kind, o: &Opts, rq: &ReqDesc) -> bool {
    if !matches!(rq.scheme, "http" | "https" | "ws" | "wss") {
        return false;
    }
    let mut ty = alias(rq.rtype);
    if rq.scheme == "ws" || rq.scheme == "wss" {
        ty = "websocket";
    }
    match kind {
        Kind::WsScheme => {
            if !(rq.scheme == "ws" || rq.scheme == "wss") {
                return false;
            }
        }
        Kind::HttpScheme => {
            if rq.scheme != "http" {
                return false;
            }
        }
        Kind::HttpsScheme => {
            if rq.scheme != "https" {
                return false;
            }
        }
        _ => {}
    }
    match o.party {
        "3p" | "~1p" | "third-party" | "~first-party" => {
            if !rq.third {
                return false;
            }
        }
        "1p" | "~3p" | "first-party" | "~third-party" => {
            if rq.third {
                return false;
            }
        }
        _ => {}
    }
    // initiator-domain list: a listed domain covers its subdomains, exclusions win, an absent
    // initiator cannot satisfy an inclusion list
    match rq.source_host {
        Some(h) => {
            let sx = suffixes(h);
            if !o.included.is_empty() && !sx.iter().any(|s| o.included.iter().any(|d| d == s)) {
                return false;
            }
            if sx.iter().any(|s| o.excluded.iter().any(|d| d == s)) {
                return false;
            }
        }
        None => {
            if !o.included.is_empty() {
                return false;
            }
        }
    }
    if kind == Kind::Csp {
        return matches!(ty, "document" | "subdocument");
    }
    if kind == Kind::RemoveParam {
        if ty == "csp" || o.neg.contains(&ty) {
            return false;
        }
        return if o.pos.is_empty() && !o.doc {
            matches!(ty, "document" | "subdocument" | "xmlhttprequest")
        } else {
            (ty == "document" && o.doc) || o.pos.contains(&ty)
        };
    }
    let implicit_all = kind == Kind::HostCaret && o.pos.is_empty() && o.neg.is_empty() && !o.doc;
    if ty == "document" {
        o.doc || implicit_all || kind == Kind::Exception
    } else if ty == "csp" {
        false
    } else {
        let mut base = o.pos.is_empty() && !o.doc;
        if !o.neg.is_empty() {
            base = true;
        }
        let mut a = base || o.pos.contains(&ty);
        if kind == Kind::WsScheme && ty == "websocket" {
            a = true;
        }
        if o.neg.contains(&ty) {
            a = false;
        }
        a
    }
}

fn spell_rule(r: Option<&mut Rng>, kind: Kind, o: &Opts) -> String {
    let mut opts: Vec<String> = vec![];
    let mut rr = r;
    for t in &o.pos {
        opts.push(match rr.as_deref_mut() {
            Some(r) => opt_spelling(r, t).to_string(),
            None => t.to_string(),
        });
    }
    for t in &o.neg {
        opts.push(format!(
            "~{}",
            match rr.as_deref_mut() {
                Some(r) => opt_spelling(r, t),
                None => t,
            }
        ));
    }
    if o.doc {
        opts.push("document".into());
    }
    if !o.party.is_empty() {
        opts.push(o.party.into());
    }
    if !o.included.is_empty() || !o.excluded.is_empty() {
        let mut parts: Vec<String> = o.included.clone();
        parts.extend(o.excluded.iter().map(|d| format!("~{}", d)));
        if let Some(r) = rr.as_deref_mut() {
            r.shuffle(&mut parts);
        }
        opts.push(format!("domain={}", parts.join("|")));
    }
    if o.important {
        opts.push("important".into());
    }
    if kind == Kind::RemoveParam {
        opts.push("removeparam=p".into());
    }
    if kind == Kind::Csp {
        opts.push("csp=script-src x".into());
    }
    if kind == Kind::Redirect {
        opts.push("redirect=noop.js".into());
    }
    if let Some(r) = rr.as_deref_mut() {
        r.shuffle(&mut opts);
    }
    let pat = match kind {
        Kind::Plain => "/adpath",
        Kind::HostCaret => "||ads.net^",
        Kind::Exception => "@@/adpath",
        Kind::WsScheme => "|ws://",
        Kind::HttpScheme => "|http://",
        Kind::HttpsScheme => "|https://",
        Kind::RemoveParam | Kind::Csp | Kind::Redirect => "/adpath",
    };
    if opts.is_empty() {
        pat.to_string()
    } else {
        format!("{}${}", pat, opts.join(","))
    }
}

/// (source url, third-party?, source host)
const SOURCES: &[(&str, bool, Option<&str>)] = &[
    ("https://ads.net/", false, Some("ads.net")),
    ("https://sub.ads.net/page", false, Some("sub.ads.net")),
    ("https://deep.sub.ads.net/", false, Some("deep.sub.ads.net")),
    ("https://other.org/", true, Some("other.org")),
    ("https://x.b.co.uk/", true, Some("x.b.co.uk")),
    ("", true, None),
    ("not a url", true, None),
    // the request host merely ends with this host's text (no label boundary): third-party
    ("https://ds.net/", true, Some("ds.net")),
    // five labels in front of the registrable domain (every parent domain must still count)
    ("https://a.b.c.d.sub.ads.net/", false, Some("a.b.c.d.sub.ads.net")),
];
const SCHEMES: &[&str] = &["http", "https", "ws", "wss", "ftp", "data"];

struct Out {
    evals: u64,
    positives: u64,
    nt: Vec<u64>,
    sample: Option<serde_json::Value>,
    viol: Vec<(String, serde_json::Value)>,
}

/// Evaluate one rule line against the whole request cross product.
fn check_rule(kind: Kind, o: &Opts, line: &str, sources: &[(&str, bool, Option<&str>)], types: &[&str]) -> Option<Out> {
    let f = NetworkFilter::parse(line, true, Default::default()).ok()?;
    let mut e = Engine::from_rules_debug([line], Default::default());
    if kind == Kind::Redirect {
        e.use_resources(crate::gen::standard_resources().iter().map(|d| d.to_resource()));
    }
    // the same single-rule engine after a serialization round trip (removeparam rules do not
    // survive serialization: known finding homed in C08)
    let e2 = if kind == Kind::RemoveParam {
        None
    } else {
        let mut x = Engine::default();
        x.deserialize(&e.serialize_raw().ok()?).ok()?;
        if kind == Kind::Redirect {
            x.use_resources(crate::gen::standard_resources().iter().map(|d| d.to_resource()));
        }
        Some(x)
    };
    let mut rm = RegexManager::default();
    let mut out = Out {
        evals: 0,
        positives: 0,
        nt: vec![],
        sample: None,
        viol: vec![],
    };
    for scheme in SCHEMES {
        for (src, third, shost) in sources {
            for rt in types {
                let url = if kind == Kind::RemoveParam { format!("{}://ads.net/adpath?p=1", scheme) } else { format!("{}://ads.net/adpath", scheme) };
                let rq = match Request::new(&url, src, rt) {
                    Ok(rq) => rq,
                    Err(_) => continue,
                };
                let d = ReqDesc {
                    rtype: rt,
                    scheme,
                    third: *third,
                    source_host: *shost,
                };
                let exp = reference(kind, o, &d);
                let got_rule = f.matches(&rq, &mut rm);
                let b = e.check_network_request(&rq);
                out.evals += 1;
                if exp {
                    out.positives += 1;
                    if out.nt.len() < 6 {
                        out.nt.push(fnv(&format!("{}|{}|{}|{}", line, url, src, rt)));
                    }
                    if out.sample.is_none() {
                        out.sample = Some(json!({"rule": line, "url": url, "source": src, "type": rt, "reference_applies": exp, "engine_matched": b.matched}));
                    }
                }
                let supported = matches!(*scheme, "http" | "https" | "ws" | "wss");
                if rq.is_supported != supported {
                    out.viol.push((
                        "C03:is_supported-misclassified".into(),
                        json!({"url": url, "is_supported": rq.is_supported}),
                    ));
                }
                // per-rule matcher (does not look at is_supported): only judged on supported schemes
                // (csp rules carry all network types; the restriction to documents is made by the csp query)
                if supported && got_rule != exp && kind != Kind::Csp {
                    out.viol.push((
                        format!("C03:rule-options:{:?}:{}", kind, if got_rule { "applies-but-should-not" } else { "should-apply-but-does-not" }),
                        json!({"rule": line, "url": url, "source": src, "type": rt, "rule_matches": got_rule, "reference": exp}),
                    ));
                }
                if let Some(e2) = &e2 {
                    let b2 = e2.check_network_request(&rq);
                    if (b2.matched, b2.important, b2.exception.is_some()) != (b.matched, b.important, b.exception.is_some()) {
                        out.viol.push((
                            "C03:options-change-across-serialization".into(),
                            json!({"rule": line, "url": url, "source": src, "type": rt, "engine_matched": b.matched, "reloaded_engine_matched": b2.matched}),
                        ));
                    }
                }
                // engine level: unsupported schemes never match; blocking kinds: matched == exp
                if kind == Kind::Csp {
                    let injected = e.get_csp_directives(&rq).is_some();
                    if injected != exp || b.matched {
                        out.viol.push((
                            format!("C03:engine-options:Csp:{}", if b.matched { "blocks" } else if injected { "injects-but-should-not" } else { "should-inject-but-does-not" }),
                            json!({"rule": line, "url": url, "source": src, "type": rt, "engine_csp": e.get_csp_directives(&rq), "reference_applies": exp}),
                        ));
                    }
                    if let Some(e2) = &e2 {
                        if e2.get_csp_directives(&rq).is_some() != injected {
                            out.viol.push(("C03:options-change-across-serialization".into(), json!({"rule": line, "url": url, "source": src, "type": rt, "what": "csp"})));
                        }
                    }
                } else if kind == Kind::Redirect {
                    if b.matched != exp || b.redirect.is_some() != exp {
                        out.viol.push((
                            format!("C03:engine-options:Redirect:{}", if b.matched && !exp { "blocks-but-should-not" } else if !b.matched && exp { "should-block-but-does-not" } else { "redirect-presence-differs-from-match" }),
                            json!({"rule": line, "url": url, "source": src, "type": rt, "engine_matched": b.matched, "engine_redirect": b.redirect, "reference_applies": exp}),
                        ));
                    }
                    if let Some(e2) = &e2 {
                        if e2.check_network_request(&rq).redirect.is_some() != b.redirect.is_some() {
                            out.viol.push(("C03:options-change-across-serialization".into(), json!({"rule": line, "url": url, "source": src, "type": rt, "what": "redirect"})));
                        }
                    }
                } else if kind == Kind::RemoveParam {
                    let rewritten = b.rewritten_url.is_some();
                    if rewritten != exp || b.matched {
                        out.viol.push((
                            format!("C03:engine-options:RemoveParam:{}", if b.matched { "blocks" } else if rewritten { "rewrites-but-should-not" } else { "should-rewrite-but-does-not" }),
                            json!({"rule": line, "url": url, "source": src, "type": rt, "engine_rewritten_url": b.rewritten_url, "reference_applies": exp}),
                        ));
                    }
                } else if kind != Kind::Exception {
                    if b.matched != exp {
                        out.viol.push((
                            format!("C03:engine-options:{:?}:{}", kind, if b.matched { "blocked-but-should-not" } else { "should-block-but-does-not" }),
                            json!({"rule": line, "url": url, "source": src, "type": rt, "engine_matched": b.matched, "reference": exp}),
                        ));
                    }
                    if b.important != (exp && o.important) {
                        out.viol.push((
                            "C03:engine-important-flag".into(),
                            json!({"rule": line, "url": url, "source": src, "type": rt, "engine_important": b.important, "reference": exp && o.important}),
                        ));
                    }
                } else if b.matched {
                    out.viol.push(("C03:exception-blocked".into(), json!({"rule": line, "url": url})));
                }
            }
        }
    }
    Some(out)
}

fn absorb(ctx: &mut Ctx, sub: &str, idx: u64, line: &str, r: Result<Option<Out>, String>) {
    match r {
        Err(sig) => ctx.violation(sub, idx, &format!("C03:{}", sig), json!({"rule": line})),
        Ok(None) => ctx.obs("rules_rejected_by_parser", 1),
        Ok(Some(out)) => {
            ctx.evals(out.evals);
            ctx.obs("reference_applies", out.positives as i64);
            ctx.obs("rules_checked", 1);
            for h in out.nt {
                ctx.nontrivial(h);
            }
            if let Some(s) = out.sample {
                ctx.sample_tagged(sub, || s);
            }
            for (sig, d) in out.viol {
                ctx.violation(sub, idx, &sig, d);
            }
        }
    }
}

pub fn run(ctx: &mut Ctx) {
    exhaustive(ctx);
    random_domains(ctx);
    match_case(ctx);
    neighbours(ctx);
    domain_siblings(ctx);
    // requests with unsupported schemes are never matched, whichever constructor built them
    crate::mon::c12::preparsed_schemes(ctx, "C03");
}

/// Options must not bleed between rules that share a bucket (and, with optimisation on, a fusion
/// group): engines built from 2-3 rules whose patterns share their index token and whose option
/// sets differ; the verdict must be the OR of the per-rule references.
fn neighbours(ctx: &mut Ctx) {
    let sub = "neighbours";
    let cases = ctx.n(30_000, 1_000_000);
    for idx in 0..cases {
        if ctx.stop() {
            break;
        }
        if !ctx.begin_case(sub, idx) {
            continue;
        }
        let seed = ctx.seed;
        let r = guarded(|| {
            let mut r = Rng::for_case(seed, "c03.neigh", idx);
            let n = 2 + r.below(2);
            let use_regex = r.chance(1, 2);
            let mut rules: Vec<(String, Opts, bool, String)> = vec![]; // line, opts, match_case, matcher text
            for i in 0..n {
                let mut o = Opts::default();
                for _ in 0..r.below(3) {
                    let t = r.ps(TYPES);
                    if r.chance(2, 3) {
                        if !o.pos.contains(&t) && !o.neg.contains(&t) {
                            o.pos.push(t);
                        }
                    } else if !o.neg.contains(&t) && !o.pos.contains(&t) {
                        o.neg.push(t);
                    }
                }
                o.party = r.ps(&["", "", "3p", "1p"]);
                o.important = r.chance(1, 6);
                let mc = use_regex && r.chance(1, 2);
                let (pat, text) = if use_regex {
                    (format!("/AdPath\\/r{}[0-9]/", i), format!("AdPath/r{}", i))
                } else {
                    (format!("/adpath/p{}.", i), format!("/adpath/p{}.", i))
                };
                let mut line = spell_rule(Some(&mut r), Kind::Plain, &o).replacen("/adpath", &pat, 1);
                if mc {
                    line.push_str(if line.contains('$') { ",match-case" } else { "$match-case" });
                }
                rules.push((line, o, mc, text));
            }
            let lines: Vec<String> = rules.iter().map(|x| x.0.clone()).collect();
            let optimize = r.chance(3, 4);
            let e = Engine::from_rules_parametrised(&lines, Default::default(), r.chance(1, 2), optimize);
            let mut out = vec![];
            for i in 0..n {
                for upper in [false, true] {
                    let path = if use_regex {
                        if upper { format!("AdPath/r{}7", i) } else { format!("adpath/r{}7", i) }
                    } else if upper {
                        format!("ADPATH/p{}.gif", i)
                    } else {
                        format!("adpath/p{}.gif", i)
                    };
                    for (src, third, shost) in [SOURCES[0], SOURCES[3]] {
                        for rt in ["script", "image", "xhr", "document", "other"] {
                            let url = format!("https://ads.net/x/{}", path);
                            let rq = match Request::new(&url, src, rt) {
                                Ok(rq) => rq,
                                Err(_) => continue,
                            };
                            let d = ReqDesc { rtype: rt, scheme: "https", third, source_host: shost };
                            let mut want = false;
                            let mut want_imp = false;
                            for (j, (_, o, mc, _)) in rules.iter().enumerate() {
                                // pattern j matches this URL iff it is rule i's URL (distinct digits/letters)
                                let pattern_hits = j == i && (!*mc || upper == use_regex && upper || (!use_regex));
                                let pattern_hits = if use_regex { j == i && (!*mc || upper) } else { pattern_hits };
                                if pattern_hits && reference(Kind::Plain, o, &d) {
                                    want = true;
                                    want_imp |= o.important;
                                }
                            }
                            let b = e.check_network_request(&rq);
                            out.push((b.matched == want && b.important == want_imp, want, json!({"rules": lines, "optimize": optimize, "url": url, "source": src, "type": rt,
                                "engine_matched": b.matched, "engine_important": b.important, "reference_matched": want, "reference_important": want_imp})));
                        }
                    }
                }
            }
            out
        });
        match r {
            Err(sig) => ctx.violation(sub, idx, &format!("C03:{}", sig), json!({})),
            Ok(v) => {
                for (ok, want, d) in v {
                    ctx.eval();
                    if want {
                        ctx.nontrivial(fnv(&d.to_string()));
                    }
                    if !ok {
                        ctx.violation(sub, idx, "C03:option-bleeds-between-neighbouring-rules", d);
                    }
                }
            }
        }
    }
}

/// Rules that are identical except for their `domain=` lists (the shape an optimiser may want to
/// merge): the engine must apply a rule to a request exactly when one of the siblings applies.
fn domain_siblings(ctx: &mut Ctx) {
    let sub = "siblings";
    let cases = ctx.n(20_000, 1_000_000);
    for idx in 0..cases {
        if ctx.stop() {
            break;
        }
        if !ctx.begin_case(sub, idx) {
            continue;
        }
        let seed = ctx.seed;
        let r = guarded(|| {
            let mut r = Rng::for_case(seed, "c03.siblings", idx);
            let n = 2 + r.below(2);
            let types = r.ps(&["", "script", "image,script", "~image"]);
            let mut sibs: Vec<(String, Opts)> = vec![];
            for _ in 0..n {
                let mut o = Opts::default();
                for t in types.split(',').filter(|t| !t.is_empty()) {
                    match t.strip_prefix('~') {
                        Some(x) => o.neg.push(TYPES.iter().find(|y| **y == x).copied().unwrap_or("image")),
                        None => o.pos.push(TYPES.iter().find(|y| **y == t).copied().unwrap_or("script")),
                    }
                }
                for _ in 0..1 + r.below(3) {
                    let d = r.ps(DOMAIN_POOL).to_string();
                    if r.chance(1, 2) {
                        if !o.excluded.contains(&d) && !o.included.contains(&d) {
                            o.excluded.push(d);
                        }
                    } else if !o.included.contains(&d) && !o.excluded.contains(&d) {
                        o.included.push(d);
                    }
                }
                sibs.push((spell_rule(Some(&mut r), Kind::Plain, &o), o));
            }
            let lines: Vec<String> = sibs.iter().map(|x| x.0.clone()).collect();
            let optimize = r.chance(3, 4);
            let e = Engine::from_rules_parametrised(&lines, Default::default(), true, optimize);
            let mut out = vec![];
            for (src, third, shost) in SOURCES {
                for rt in ["script", "image", "xhr"] {
                    let url = "https://ads.net/adpath";
                    let rq = match Request::new(url, src, rt) {
                        Ok(rq) => rq,
                        Err(_) => continue,
                    };
                    let d = ReqDesc { rtype: rt, scheme: "https", third: *third, source_host: *shost };
                    let want = sibs.iter().any(|(_, o)| reference(Kind::Plain, o, &d));
                    let got = e.check_network_request(&rq).matched;
                    out.push((got == want, want, json!({"rules": lines, "optimize": optimize, "url": url, "source": src, "type": rt, "engine_matched": got, "some_sibling_applies": want})));
                }
            }
            out
        });
        match r {
            Err(sig) => ctx.violation(sub, idx, &format!("C03:{}", sig), json!({})),
            Ok(v) => {
                for (ok, want, d) in v {
                    ctx.eval();
                    if want {
                        ctx.nontrivial(fnv(&d.to_string()));
                    }
                    if !ok {
                        ctx.violation(sub, idx, "C03:domain-lists-of-sibling-rules-interfere", d);
                    }
                }
            }
        }
    }
}

fn exhaustive(ctx: &mut Ctx) {
    let sub = "exh";
    // type atom sets with <= 2 atoms (quick: <= 1 atom + a slice of the 2-atom sets)
    let mut atoms: Vec<(Vec<&'static str>, Vec<&'static str>)> = vec![(vec![], vec![])];
    for t in TYPES {
        atoms.push((vec![t], vec![]));
        atoms.push((vec![], vec![t]));
    }
    let single = atoms.len();
    for (i, a) in TYPES.iter().enumerate() {
        for b in &TYPES[i + 1..] {
            atoms.push((vec![a, b], vec![]));
            atoms.push((vec![a], vec![b]));
            atoms.push((vec![b], vec![a]));
            atoms.push((vec![], vec![a, b]));
        }
    }
    let limit = atoms.len();
    let _ = single;
    let mut idx = 0u64;
    let mut complete = true;
    for kind in KINDS {
        for (pos, neg) in atoms.iter().take(limit) {
            for doc in [false, true] {
                for party in ["", "3p", "~3p", "1p", "~1p"] {
                    for important in [false, true] {
                        idx += 1;
                        if (kind == Kind::Exception || kind == Kind::RemoveParam || kind == Kind::Csp) && important {
                            continue;
                        }
                        if kind == Kind::Csp && (!pos.is_empty() || !neg.is_empty() || doc) {
                            continue;
                        }
                        if ctx.stop() {
                            complete = false;
                            break;
                        }
                        if !ctx.begin_case(sub, idx) {
                            continue;
                        }
                        let o = Opts {
                            pos: pos.clone(),
                            neg: neg.clone(),
                            doc,
                            party,
                            important,
                            ..Default::default()
                        };
                        let line = spell_rule(None, kind, &o);
                        let r = guarded(|| check_rule(kind, &o, &line, SOURCES, REQ_TYPES));
                        absorb(ctx, sub, idx, &line, r);
                    }
                }
            }
        }
    }
    if complete && ctx.only_case.is_none() {
        ctx.report.exhaustive.push(format!(
            "option sets with <= {} type atoms x document x party x important x 9 rule kinds x 22 request type strings x 9 initiators x 6 schemes (this shard's share)",
            "2"
        ));
    }
}

const DOMAIN_POOL: &[&str] = &[
    "ads.net",
    "sub.ads.net",
    "deep.sub.ads.net",
    "net",
    "other.org",
    "org",
    "b.co.uk",
    "x.b.co.uk",
    "co.uk",
    "unrelated.io",
    "xads.net",
];

fn random_domains(ctx: &mut Ctx) {
    let sub = "domains";
    let cases = ctx.n(20_000, 3_000_000);
    for idx in 0..cases {
        if ctx.stop() {
            break;
        }
        if !ctx.begin_case(sub, idx) {
            continue;
        }
        let seed = ctx.seed;
        let mut line = String::new();
        let r = guarded(|| {
            let mut r = Rng::for_case(seed, "c03.domains", idx);
            let kind = *r.pick(&KINDS);
            let mut o = Opts::default();
            let n = 1 + r.below(6);
            for _ in 0..n {
                let d = r.ps(DOMAIN_POOL).to_string();
                if r.chance(1, 3) {
                    if !o.excluded.contains(&d) {
                        o.excluded.push(d);
                    }
                } else if !o.included.contains(&d) {
                    o.included.push(d);
                }
            }
            // duplicates are legal
            if r.chance(1, 5) && !o.included.is_empty() {
                let d = o.included[0].clone();
                o.included.push(d);
            }
            let nt = r.below(3);
            for _ in 0..nt {
                let t = r.ps(TYPES);
                if r.chance(1, 2) {
                    if !o.pos.contains(&t) && !o.neg.contains(&t) {
                        o.pos.push(t);
                    }
                } else if !o.neg.contains(&t) && !o.pos.contains(&t) {
                    o.neg.push(t);
                }
            }
            o.doc = r.chance(1, 6);
            o.party = r.ps(&["", "", "3p", "~3p", "1p", "~1p", "third-party", "first-party"]);
            o.important = kind != Kind::Exception && kind != Kind::RemoveParam && kind != Kind::Csp && r.chance(1, 5);
            if kind == Kind::Csp {
                o.pos.clear();
                o.neg.clear();
                o.doc = false;
            }
            line = spell_rule(Some(&mut r), kind, &o);
            let types: Vec<&str> = (0..5).map(|_| r.ps(REQ_TYPES)).collect();
            check_rule(kind, &o, &line, SOURCES, &types)
        });
        absorb(ctx, sub, idx, &line, r);
    }
}

/// `$match-case` on full-regex rules: with it the URL is matched case-sensitively, without it
/// case-insensitively.
fn match_case(ctx: &mut Ctx) {
    let sub = "matchcase";
    let words = ["AdPath", "adpath", "ADPATH", "aDpAtH"];
    let mut idx = 0u64;
    for rule_word in words {
        for mc in [false, true] {
            idx += 1;
            if !ctx.begin_case(sub, idx) {
                continue;
            }
            let line = format!("/{}\\d/{}", rule_word, if mc { "$match-case" } else { "" });
            let r = guarded(|| {
                let f = NetworkFilter::parse(&line, true, Default::default()).ok()?;
                let e = Engine::from_rules_debug([&line], Default::default());
                let mut rm = RegexManager::default();
                let mut v = vec![];
                for url_word in words {
                    let url = format!("https://ads.net/x/{}7", url_word);
                    let rq = Request::new(&url, "https://other.org/", "script").ok()?;
                    let exp = if mc { rule_word == url_word } else { true };
                    let got = f.matches(&rq, &mut rm);
                    let eng = e.check_network_request(&rq).matched;
                    v.push((url, exp, got, eng));
                }
                Some(v)
            });
            match r {
                Err(sig) => ctx.violation(sub, idx, &format!("C03:{}", sig), json!({"rule": line})),
                Ok(None) => ctx.obs("rules_rejected_by_parser", 1),
                Ok(Some(v)) => {
                    for (url, exp, got, eng) in v {
                        ctx.eval();
                        if exp {
                            ctx.nontrivial(fnv(&format!("{}|{}", line, url)));
                        }
                        if got != exp || eng != exp {
                            ctx.violation(
                                sub,
                                idx,
                                "C03:match-case",
                                json!({"rule": line, "url": url, "reference": exp, "rule_matches": got, "engine_matched": eng}),
                            );
                        }
                    }
                }
            }
        }
    }
}
