//! C09 — serialization is deterministic and a fixpoint under reload.
//!
//! Events are byte strings. (a) two engines built in one process from the same lines (fresh
//! HashMap seeds) serialize identically; (b) K child processes (fresh process-level hash seeds)
//! print length + 128-bit digest of the same serialization; all equal; (c)
//! serialize(deserialize(b)) == b, also after tag round trips and with a non-empty tag set.

use crate::gen::{self, gen_cluster, gen_rule, Profile, TAGS};
use crate::gen_cos::{gen_cos_rule, SELS};
use crate::mon::c08::build;
use crate::report::{guarded, Ctx};
use crate::rng::{digest128, fnv, Rng};
use adblock::Engine;
use serde_json::json;
use std::process::Command;

/// Lists large enough that every hash container holds many entries.
pub fn big_list(r: &mut Rng, min: usize) -> Vec<String> {
    let mut lines = vec![];
    let target = min + r.below(min);
    while lines.len() < target {
        match r.below(6) {
            0 => lines.extend(gen_cluster(r, &Profile::ALL)),
            1 | 2 => lines.push(gen_cos_rule(r, SELS, true).line),
            3 => {
                // many generic class/id rules (simple and complex) with distinct keys
                let k = r.below(500);
                lines.push(match r.below(4) {
                    0 => format!("##.cls{}", k),
                    1 => format!("###id{}", k),
                    2 => format!("##.cls{} > .x{}", k % 40, k),
                    _ => format!("##div[data-ad=\"{}\"]", k),
                });
            }
            _ => lines.push(gen_rule(r, &Profile::ALL)),
        }
    }
    r.shuffle(&mut lines);
    // every other list comes from two sources with different permission masks; some rules
    // (scriptlet rules in particular) are present in both
    if r.chance(1, 2) && lines.len() > 4 {
        let at = 1 + r.below(lines.len() - 1);
        let dups: Vec<String> = lines[..at].iter().filter(|l| l.contains("+js(") || r.chance(1, 12)).cloned().collect();
        lines.insert(at, format!("{}{}", crate::mon::c08::SOURCE_MARKER, r.ps(&["0", "1", "3", "255"])));
        for d in dups {
            let pos = at + 1 + r.below(lines.len() - at);
            lines.insert(pos, d);
        }
    }
    lines
}

fn flags(r: &mut Rng) -> (bool, bool, u8) {
    (r.chance(1, 2), r.chance(1, 2), *r.pick(&[0u8, 0, 1, 255]))
}

fn case_material(seed: u64, idx: u64, quick: bool) -> (Vec<String>, bool, bool, u8) {
    let mut r = Rng::for_case(seed, "c09.det", idx);
    let lines = big_list(&mut r, if quick { 200 } else { 400 });
    let (debug, optimize, perm) = flags(&mut r);
    (lines, debug, optimize, perm)
}

/// Child mode: rebuild the case's engine in this fresh process and print `len digest`.
pub fn child(ctx: &mut Ctx) {
    let idx: u64 = ctx.extra.get("idx").and_then(|s| s.parse().ok()).unwrap_or(0);
    let corpus = ctx.extra.contains_key("corpusfiles");
    let (lines, debug, optimize, perm) = if corpus {
        (corpus_lines(), idx % 2 == 0, idx % 4 < 2, 0)
    } else {
        case_material(ctx.seed, idx, ctx.quick())
    };
    let e = build(&lines, debug, optimize, perm);
    let b = e.serialize_raw().expect("serialize");
    println!("{} {}", b.len(), digest128(&b));
    std::process::exit(0);
}

fn corpus_lines() -> Vec<String> {
    let mut rules = vec![];
    for p in [
        "/repo/data/easylist.to/easylist/easylist.txt",
        "/repo/data/easylist.to/easylist/easyprivacy.txt",
        "/repo/data/uBlockOrigin/filters.txt",
    ] {
        if let Ok(s) = std::fs::read_to_string(p) {
            rules.extend(s.lines().map(|l| l.to_string()));
        }
    }
    rules
}

fn spawn_child(ctx: &Ctx, idx: u64, corpus: bool) -> Option<String> {
    let exe = std::env::current_exe().ok()?;
    let mut cmd = Command::new(exe);
    cmd.arg("C09CHILD")
        .arg("--tier")
        .arg(if ctx.quick() { "quick" } else { "thorough" })
        .arg("--seed")
        .arg(ctx.seed.to_string())
        .arg("--set")
        .arg(format!("idx={}", idx));
    if corpus {
        cmd.arg("--set").arg("corpusfiles=1");
    }
    let out = cmd.output().ok()?;
    if !out.status.success() {
        return None;
    }
    Some(String::from_utf8_lossy(&out.stdout).trim().to_string())
}

fn largest_containers(e: &Engine) -> (usize, usize) {
    // (number of buckets in the largest list, size of the largest bucket) via the H4 walker
    let mut per_list: std::collections::HashMap<&'static str, std::collections::HashMap<u64, usize>> = Default::default();
    e.verif_blocker().verif_walk(&mut |list, token, _| {
        *per_list.entry(list).or_default().entry(token).or_insert(0) += 1;
    });
    let buckets = per_list.values().map(|m| m.len()).max().unwrap_or(0);
    let biggest = per_list.values().flat_map(|m| m.values().cloned()).max().unwrap_or(0);
    (buckets, biggest)
}

pub fn run(ctx: &mut Ctx) {
    let sub = "det";
    let cases = ctx.n(3_200, 120_000);
    let children = if ctx.quick() { 3 } else { 6 };
    for idx in 0..cases {
        if ctx.stop() {
            break;
        }
        if !ctx.begin_case(sub, idx) {
            continue;
        }
        let seed = ctx.seed;
        let quick = ctx.quick();
        let out = guarded(|| {
            let (lines, debug, optimize, perm) = case_material(seed, idx, quick);
            let mut viol: Vec<(String, serde_json::Value)> = vec![];
            let mut evals = 0u64;
            let desc = json!({"rules_count": lines.len(), "first_rules": lines.iter().take(6).collect::<Vec<_>>(), "debug": debug, "optimize": optimize, "list_permission_bits": perm,
                "regenerate": format!("abverif C09CHILD --seed {} --set idx={}", seed, idx)});
            // (a) same process, independent builds
            let e1 = build(&lines, debug, optimize, perm);
            let b1 = e1.serialize_raw().expect("serialize");
            let e2 = build(&lines, debug, optimize, perm);
            let b2 = e2.serialize_raw().expect("serialize");
            evals += 1;
            if b1 != b2 {
                let at = b1.iter().zip(b2.iter()).position(|(x, y)| x != y).unwrap_or(b1.len().min(b2.len()));
                viol.push(("C09:same-process-builds-differ".into(), json!({"case": desc, "len1": b1.len(), "len2": b2.len(), "first_difference_at": at})));
            }
            // serializing twice is stable
            evals += 1;
            if e1.serialize_raw().expect("serialize") != b1 {
                viol.push(("C09:repeated-serialize-differs".into(), json!({"case": desc})));
            }
            // (c) fixpoint under reload, with either target flag
            for target_opt in [false, true] {
                let mut l = Engine::new(target_opt);
                evals += 1;
                match l.deserialize(&b1) {
                    Err(e) => viol.push(("C09:own-buffer-rejected".into(), json!({"case": desc, "error": format!("{:?}", e)}))),
                    Ok(()) => {
                        let again = l.serialize_raw().expect("serialize");
                        if again != b1 {
                            let at = b1.iter().zip(again.iter()).position(|(x, y)| x != y).unwrap_or(b1.len().min(again.len()));
                            viol.push(("C09:reload-is-not-a-fixpoint".into(), json!({"case": desc, "len": b1.len(), "len_after_reload": again.len(), "first_difference_at": at})));
                        }
                        // tag round trip on the loaded engine
                        l.use_tags(&TAGS[..2]);
                        l.use_tags(&[]);
                        evals += 1;
                        if l.serialize_raw().expect("serialize") != b1 {
                            viol.push(("C09:reload-fixpoint-lost-after-tag-round-trip".into(), json!({"case": desc})));
                        }
                    }
                }
            }
            // with a non-empty tag set on both sides
            {
                let mut t1 = build(&lines, debug, optimize, perm);
                t1.use_tags(&TAGS[..2]);
                let bt = t1.serialize_raw().expect("serialize");
                let mut t2 = Engine::new(optimize);
                t2.use_tags(&TAGS[..2]);
                evals += 1;
                if t2.deserialize(&bt).is_ok() && t2.serialize_raw().expect("serialize") != bt {
                    viol.push(("C09:reload-is-not-a-fixpoint-with-tags".into(), json!({"case": desc})));
                }
                let mut t3 = build(&lines, debug, optimize, perm);
                t3.use_tags(&TAGS[..2]);
                evals += 1;
                if t3.serialize_raw().expect("serialize") != bt {
                    viol.push(("C09:same-process-builds-differ-with-tags".into(), json!({"case": desc})));
                }
                // the same enabled set reached through other histories of tag operations
                let mut t4 = build(&lines, debug, optimize, perm);
                t4.enable_tags(&TAGS[..1]);
                t4.enable_tags(&TAGS[1..2]);
                let mut t5 = build(&lines, debug, optimize, perm);
                t5.enable_tags(&TAGS[1..2]);
                t5.enable_tags(&TAGS[..3]);
                t5.disable_tags(&TAGS[2..3]);
                evals += 2;
                for (name, t) in [("enable one by one", &t4), ("enable, enable more, disable the surplus", &t5)] {
                    if t.serialize_raw().expect("serialize") != bt {
                        viol.push(("C09:bytes-depend-on-the-history-of-tag-operations".into(), json!({"case": desc, "route": name})));
                    }
                }
            }
            let (buckets, biggest) = largest_containers(&e1);
            (evals, viol, digest128(&b1), b1.len(), buckets, biggest, desc)
        });
        match out {
            Err(sig) => ctx.violation(sub, idx, &format!("C09:{}", sig), json!({})),
            Ok((evals, viol, digest, len, buckets, biggest, desc)) => {
                ctx.evals(evals);
                ctx.obs_max("max_buffer_len", len as i64);
                ctx.obs_max("max_buckets_in_one_list", buckets as i64);
                ctx.obs_max("max_rules_in_one_bucket", biggest as i64);
                if buckets >= 8 {
                    ctx.nontrivial(fnv(&digest));
                    ctx.sample(|| json!({"case": desc, "buffer_len": len, "digest": digest, "buckets_in_largest_list": buckets}));
                }
                for (sig, d) in viol {
                    ctx.violation(sub, idx, &sig, d);
                }
                // (b) fresh processes
                let want = format!("{} {}", len, digest);
                for k in 0..children {
                    match spawn_child(ctx, idx, false) {
                        None => ctx.obs("child_processes_failed_to_run", 1),
                        Some(got) => {
                            ctx.eval();
                            ctx.obs("child_process_serializations_compared", 1);
                            if got != want {
                                ctx.violation(
                                    sub,
                                    idx,
                                    "C09:fresh-process-build-differs",
                                    json!({"case": desc, "parent_len_digest": want, "child_len_digest": got, "child_number": k}),
                                );
                            }
                        }
                    }
                }
            }
        }
    }
    if !ctx.quick() || ctx.extra.contains_key("corpus") {
        // corpus lists: 4 flag combinations, one per shard index, several children each
        for idx in 0..4u64 {
            if ctx.stop() || !ctx.begin_case("corpus", idx) {
                continue;
            }
            let out = guarded(|| {
                let lines = corpus_lines();
                if lines.is_empty() {
                    return None;
                }
                let e = build(&lines, idx % 2 == 0, idx % 4 < 2, 0);
                let b = e.serialize_raw().expect("serialize");
                let mut l = Engine::new(true);
                let fix = l.deserialize(&b).is_ok() && l.serialize_raw().expect("serialize") == b;
                Some((b.len(), digest128(&b), fix))
            });
            match out {
                Err(sig) => ctx.violation("corpus", idx, &format!("C09:{}", sig), json!({})),
                Ok(None) => ctx.note("corpus unavailable".into()),
                Ok(Some((len, digest, fix))) => {
                    ctx.eval();
                    ctx.obs_max("max_buffer_len", len as i64);
                    ctx.nontrivial(fnv(&digest));
                    if !fix {
                        ctx.violation("corpus", idx, "C09:reload-is-not-a-fixpoint", json!({"list": "corpus", "flags_index": idx}));
                    }
                    let want = format!("{} {}", len, digest);
                    for k in 0..6 {
                        if let Some(got) = spawn_child(ctx, idx, true) {
                            ctx.eval();
                            ctx.obs("child_process_serializations_compared", 1);
                            if got != want {
                                ctx.violation("corpus", idx, "C09:fresh-process-build-differs", json!({"list": "corpus", "flags_index": idx, "parent": want, "child": got, "child_number": k}));
                            }
                        }
                    }
                }
            }
        }
    }
    let _ = gen::TOK;
}
