//! C13 — the redirect in a verdict is the best permitted matching redirect resource.
//!
//! Independent oracle (O-scan redirect part + resource model): candidates = matching non-exception
//! redirect / redirect-rule rules whose modifier text is not the modifier text of a matching
//! redirect exception; winner in arg-max priority (set-valued on ties); data-URL iff the winner's
//! resource resolves by name or alias, is redirectable and needs no permission; `$redirect` also
//! blocks, `redirect-rule` never.

use crate::gen::{self, ResDef};
use crate::mon::common::{ask, build_engine_with, diff, verdict_json};
use adblock::blocker::{Blocker, BlockerOptions};
use adblock::lists::parse_filters;
use adblock::resources::ResourceStorage;
use crate::oracle::resources::ResModel;
use crate::oracle::scan::Scan;
use crate::report::{guarded, Ctx};
use crate::rng::{fnv, Rng};
use adblock::lists::ParseOptions;
use adblock::request::Request;
use serde_json::json;
use std::collections::HashSet;

const KINDS: &[&str] = &[
    "text/css",
    "image/gif",
    "text/html",
    "application/javascript",
    "application/json",
    "audio/mp3",
    "video/mp4",
    "image/png",
    "text/plain",
    "text/xml",
    "fn/javascript",
    "template",
    "x-unknown/type",
];
const NAMES: &[&str] = &["r0", "r1.js", "r2.gif", "r3", "r4.txt", "r5"];
const ALIASES: &[&str] = &["a0", "a1", "a2", "a3", "a4", "a5"];

/// The store as the engine must see it: a resource whose name or any alias is already taken is
/// rejected entirely (nothing of it is registered); earlier resources win.
fn effective_store(defs: &[ResDef]) -> Vec<ResDef> {
    let mut taken: std::collections::HashSet<String> = Default::default();
    let mut out = vec![];
    for d in defs {
        let idents: Vec<&String> = std::iter::once(&d.name).chain(d.aliases.iter()).collect();
        if idents.iter().any(|i| taken.contains(*i)) {
            continue;
        }
        for i in idents {
            taken.insert(i.clone());
        }
        out.push(d.clone());
    }
    out
}

fn gen_store(r: &mut Rng) -> Vec<ResDef> {
    let mut v = vec![];
    for (i, name) in NAMES.iter().enumerate() {
        if r.chance(1, 5) {
            continue; // missing resource
        }
        let mut aliases = if r.chance(1, 2) { vec![ALIASES[i].to_string()] } else { vec![] };
        // sometimes a second alias, possibly colliding with another resource's alias or name
        if r.chance(1, 4) {
            aliases.push(if r.chance(1, 2) { r.ps(ALIASES).to_string() } else { r.ps(NAMES).to_string() });
        }
        if aliases.len() == 2 && r.chance(1, 2) {
            aliases.swap(0, 1);
        }
        v.push(ResDef {
            name: name.to_string(),
            aliases,
            kind: r.ps(KINDS).to_string(),
            content: format!("content-of-{}", name),
            deps: vec![],
            perm: if r.chance(1, 5) { *r.pick(&[1u8, 2, 128]) } else { 0 },
        });
    }
    if r.chance(1, 6) && !v.is_empty() {
        // a later resource re-using an earlier canonical name (must be rejected)
        let mut d = r.pick(&v).clone();
        d.kind = r.ps(KINDS).to_string();
        d.aliases = vec![format!("late-{}", d.name)];
        d.content = "late".into();
        v.push(d);
    }
    if r.chance(1, 3) {
        r.shuffle(&mut v);
    }
    v
}

fn gen_rules(r: &mut Rng, host: &str, t1: &str) -> Vec<String> {
    let frags = [
        format!("||{}^", host),
        format!("||{}/{}", host, t1),
        format!("/{}/", t1),
        format!("/{}/*.js", t1),
        format!("|https://{}/", host),
        format!("/{}/x.js|", t1),
    ];
    let n = 1 + r.below(7);
    let mut rules = vec![];
    for _ in 0..n {
        let ident = if r.chance(2, 3) { r.ps(NAMES) } else { r.ps(ALIASES) };
        let prio = r.ps(&["", "", ":10", ":-5", ":0", ":x", ":", ":10", ":5", ":2147483647", ":-2147483648"]);
        let modifier = format!("{}{}", ident, prio);
        let mut opts: Vec<String> = vec![];
        let mut line = String::new();
        match r.below(8) {
            0 | 1 => {
                line.push_str("@@");
                opts.push(format!("redirect={}", modifier));
            }
            2 | 3 => opts.push(format!("redirect-rule={}", modifier)),
            _ => opts.push(format!("redirect={}", modifier)),
        }
        line.push_str(r.pick(&frags[..]).as_str());
        if r.chance(1, 4) {
            opts.push(r.ps(&["script", "image", "~image", "third-party", "script,xhr"]).into());
        }
        if r.chance(1, 8) {
            opts.push(format!("domain={}", r.ps(gen::HOSTS)));
        }
        if r.chance(1, 2) {
            r.shuffle(&mut opts);
        }
        line.push('$');
        line.push_str(&opts.join(","));
        rules.push(line);
    }
    // re-use an existing modifier text for an exception (identical text => cancels)
    if r.chance(1, 3) {
        if let Some(m) = rules.iter().filter(|l| !l.starts_with("@@")).find_map(|l| {
            l.split('$').nth(1).and_then(|o| o.split(',').find_map(|x| x.strip_prefix("redirect=").or_else(|| x.strip_prefix("redirect-rule=")).map(|s| s.to_string())))
        }) {
            rules.push(format!("@@{}$redirect={}", r.pick(&frags[..]), m));
        }
    }
    // a $badfilter twin cancels its rule in every list it lives in, the redirect list included
    if r.chance(1, 6) {
        let victim = r.pick(&rules).clone();
        rules.push(format!("{},badfilter", victim));
    }
    // plain blocking / exception noise so that blocked-ness varies independently
    match r.below(4) {
        0 => rules.push(format!("||{}^", host)),
        1 => rules.push(format!("@@||{}^", host)),
        2 => rules.push(format!("/{}/$important", t1)),
        _ => {}
    }
    r.shuffle(&mut rules);
    rules
}

pub fn run(ctx: &mut Ctx) {
    let sub = "redirect";
    let cases = ctx.n(300_000, 16_000_000);
    for idx in 0..cases {
        if ctx.stop() {
            break;
        }
        if !ctx.begin_case(sub, idx) {
            continue;
        }
        let seed = ctx.seed;
        let out = guarded(|| {
            let mut r = Rng::for_case(seed, "c13", idx);
            let host = r.ps(gen::HOSTS);
            let t1 = r.ps(gen::TOK);
            let rules = gen_rules(&mut r, host, t1);
            let store = gen_store(&mut r);
            let optimize = r.chance(1, 2);
            let opts = ParseOptions::default();
            // one engine in four receives its last resource late, after the requests have been
            // asked once without it (answers must follow the store, not the history of lookups)
            let late = r.chance(1, 4) && !store.is_empty();
            // ... and one in four first holds older versions of the same resources (other content,
            // kind or permission under the same names) and is then refreshed with the real ones
            let refreshed = !late && r.chance(1, 3);
            let older: Vec<ResDef> = store
                .iter()
                .map(|d| {
                    let mut o = d.clone();
                    match r.below(3) {
                        0 => o.content = format!("older-{}", o.content),
                        1 => o.perm = if o.perm == 0 { 1 } else { 0 },
                        _ => o.kind = if o.kind == "application/javascript" { "image/gif".into() } else { "application/javascript".into() },
                    }
                    o
                })
                .collect();
            let mut e = build_engine_with(&rules, opts, true, optimize, if late { &store[..store.len() - 1] } else if refreshed { &older[..] } else { &store[..] });
            if refreshed {
                e.use_resources(store.iter().map(|d| d.to_resource()));
            }
            if !late && r.chance(1, 5) {
                // loading rules (here: the engine's own buffer) does not touch the resources
                let buf = e.serialize_raw().expect("serialize");
                e.deserialize(&buf).expect("own buffer");
            }
            if late {
                for k in 0..3 {
                    let url = match k {
                        0 => format!("https://{}/{}/x.js", host, t1),
                        1 => format!("https://{}/{}/y.js?q=1", host, t1),
                        _ => format!("https://sub.{}/other/{}/x.js", host, t1),
                    };
                    for ty in ["script", "image", "xhr"] {
                        if let Ok(rq) = Request::new(&url, &format!("https://{}/", host), ty) {
                            let _ = e.check_network_request(&rq);
                        }
                    }
                }
                let _ = e.add_resource(store[store.len() - 1].to_resource());
            }
            // the same rules added one at a time to a live Blocker (duplicates are refused there,
            // which changes nothing for the verdict)
            let mut blocker = Blocker::new(vec![], &BlockerOptions { enable_optimizations: false });
            for line in &rules {
                let (mut nf, _) = parse_filters([line], true, opts);
                if let Some(f) = nf.pop() {
                    let _ = blocker.add_filter(f);
                }
            }
            let storage = ResourceStorage::from_resources(store.iter().map(|d| d.to_resource()));
            let mut scan = Scan::new(&rules, opts);
            let effective = effective_store(&store);
            let res = ResModel { defs: &effective };
            let tags = HashSet::new();
            let mut out = vec![];
            for k in 0..3 {
                let url = match k {
                    0 => format!("https://{}/{}/x.js", host, t1),
                    1 => format!("https://{}/{}/y.js?q=1", host, t1),
                    _ => format!("https://sub.{}/other/{}/x.js", host, t1),
                };
                let source = if r.chance(1, 2) { format!("https://{}/", r.ps(gen::HOSTS)) } else { format!("https://{}/", host) };
                let ty = r.ps(&["script", "image", "xhr", "script"]);
                let rq = match Request::new(&url, &source, ty) {
                    Ok(rq) => rq,
                    Err(_) => continue,
                };
                let a = ask(&e, &rq);
                let v = scan.verdict(&rq, &url, &tags, &res);
                let d: Vec<&str> = diff(&a, &v).into_iter().filter(|f| matches!(*f, "redirect" | "matched" | "important" | "exception")).collect();
                // the multi-engine entry point: the redirect does not depend on what an earlier
                // engine decided or on whether exceptions are forced
                let mut subset_differs: Option<serde_json::Value> = None;
                for (prev, force) in [(true, false), (true, true), (false, true)] {
                    let s = e.check_network_request_subset(&rq, prev, force);
                    if s.redirect != a.redirect {
                        subset_differs = Some(json!({"previously_matched_rule": prev, "force_check_exceptions": force, "redirect": s.redirect}));
                    }
                }
                let a2 = crate::mon::c05::blocker_answer(&blocker, &storage, &rq);
                let d2: Vec<&str> = diff(&a2, &v).into_iter().filter(|f| matches!(*f, "redirect" | "matched" | "important" | "exception")).collect();
                let nt = v.redirect_candidates >= 2 || (v.redirect_candidates >= 1 && v.redirect_exceptions >= 1);
                let h = fnv(&format!("{:?}|{:?}|{}|{}|{}", rules, store.iter().map(|s| (&s.name, &s.kind, s.perm, &s.aliases)).collect::<Vec<_>>(), url, source, ty));
                let detail = json!({"rules": rules, "resources": store.iter().map(|s| json!({"name": s.name, "aliases": s.aliases, "kind": s.kind, "permission": s.perm})).collect::<Vec<_>>(),
                    "url": url, "source": source, "type": ty, "optimize": optimize, "engine": a.to_json(), "oracle": verdict_json(&v),
                    "redirect_candidates": v.redirect_candidates, "matching_redirect_exceptions": v.redirect_exceptions});
                if let Some(sd) = subset_differs {
                    let mut det = detail.clone();
                    if let Some(o) = det.as_object_mut() {
                        o.insert("check_network_request_subset".into(), sd);
                    }
                    out.push(("redirect-depends-on-subset-flags".to_string(), nt, h, det, true));
                }
                // (add_filter refuses $badfilter rules, so the incremental twin is only judged without them)
                if !d2.is_empty() && d.is_empty() && !rules.iter().any(|l| l.contains("badfilter")) {
                    let mut det = detail.clone();
                    if let Some(o) = det.as_object_mut() {
                        o.insert("blocker_built_by_add_filter".into(), a2.to_json());
                    }
                    out.push((format!("incremental:{}", d2.join("+")), nt, h, det, a2.redirect.is_some()));
                }
                out.push((d.join("+"), nt, h, detail, a.redirect.is_some()));
            }
            out
        });
        match out {
            Err(sig) => ctx.violation(sub, idx, &format!("C13:{}", sig), json!({})),
            Ok(evs) => {
                for (d, nt, h, detail, redirected) in evs {
                    ctx.eval();
                    if redirected {
                        ctx.obs("verdicts_with_a_redirect", 1);
                    }
                    if nt {
                        ctx.nontrivial(h);
                        ctx.obs("cases_with_competing_candidates_or_exceptions", 1);
                    }
                    if !d.is_empty() {
                        ctx.violation(sub, idx, &format!("C13:mismatch:{}", d), detail);
                    } else if nt {
                        ctx.sample(|| detail);
                    }
                }
            }
        }
    }
}
