//! C15 — injected CSP is the union of matching csp rules minus excepted directives.
//!
//! Oracle (O-scan csp part): for document / subdocument requests, set of directives of matching
//! active csp rules minus directives of matching csp exceptions; None if a matching exception has
//! no directive or the set is empty; None for every other request type. Compared as sets; every
//! case is re-run with the rule order permuted (order independence).

use crate::gen::{self, TAGS};
use crate::mon::common::build_engine;
use crate::oracle::scan::{split_csp, Scan};
use crate::report::{guarded, Ctx};
use crate::rng::{fnv, Rng};
use adblock::lists::ParseOptions;
use adblock::request::Request;
use serde_json::json;
use std::collections::HashSet;

const DIRECTIVES: &[&str] = &["script-src 'none'", "img-src x", "frame-src y", "worker-src 'none'", "default-src 'self' *.a.com", "script-src 'self'", "sandbox", "upgrade-insecure-requests", "block-all-mixed-content",
    "script-src 'sha256-q1w2e3=' 'sha256-r4t5y6=='", "report-uri https://r.example/c?site=1", "report-uri https://r.example/c?site=2"];

fn gen_rules(r: &mut Rng, host: &str, tok: &str) -> Vec<String> {
    let frags = [
        format!("||{}^", host),
        format!("||{}/{}", host, tok),
        format!("/{}/", tok),
        "*".to_string(),
        String::new(),
        format!("|https://{}/", host),
        format!("||{}^", r.ps(gen::HOSTS)),
    ];
    let n = 1 + r.below(8);
    let mut rules: Vec<String> = vec![];
    for _ in 0..n {
        if !rules.is_empty() && r.chance(1, 8) {
            let d = r.pick(&rules).clone();
            rules.push(d); // duplicate
            continue;
        }
        let mut line = String::new();
        let exception = r.chance(1, 3);
        if exception {
            line.push_str("@@");
        }
        line.push_str(r.pick(&frags[..]).as_str());
        let mut opts: Vec<String> = vec![];
        if exception && r.chance(1, 4) {
            opts.push("csp".into());
        } else {
            opts.push(format!("csp={}", r.ps(DIRECTIVES)));
        }
        if r.chance(1, 4) {
            // one to three initiator sites (a pattern-less rule is then indexed under each of them)
            let n = 1 + r.below(3);
            let ds: Vec<&str> = (0..n).map(|_| r.ps(gen::HOSTS)).collect();
            opts.push(format!("domain={}", ds.join("|")));
        }
        if r.chance(1, 5) {
            opts.push(format!("tag={}", r.ps(TAGS)));
        }
        if r.chance(1, 6) {
            opts.push(r.ps(&["third-party", "~third-party"]).into());
        }
        if r.chance(1, 2) {
            r.shuffle(&mut opts);
        }
        rules.push(format!("{}${}", line, opts.join(",")));
    }
    if r.chance(1, 4) {
        rules.push(format!("||{}^", host)); // unrelated blocking rule
    }
    rules
}

pub fn run(ctx: &mut Ctx) {
    let sub = "csp";
    let cases = ctx.n(300_000, 30_000_000);
    for idx in 0..cases {
        if ctx.stop() {
            break;
        }
        if !ctx.begin_case(sub, idx) {
            continue;
        }
        let seed = ctx.seed;
        let out = guarded(|| {
            let mut r = Rng::for_case(seed, "c15", idx);
            let host = r.ps(gen::HOSTS);
            let tok = r.ps(gen::TOK);
            let rules = gen_rules(&mut r, host, tok);
            let mut permuted = rules.clone();
            r.shuffle(&mut permuted);
            let opts = ParseOptions::default();
            let optimize = r.chance(1, 2);
            let tags: Vec<&str> = TAGS.iter().filter(|_| r.chance(1, 2)).cloned().collect();
            let tagset: HashSet<String> = tags.iter().map(|s| s.to_string()).collect();
            let mut e1 = build_engine(&rules, opts, true, optimize);
            let mut e2 = build_engine(&permuted, opts, true, !optimize);
            e1.use_tags(&tags);
            // the twin reaches the same set by another route: enable a superset, then disable the
            // surplus (in one call or tag by tag)
            let surplus: Vec<&str> = TAGS.iter().filter(|t| !tags.contains(t)).filter(|_| r.chance(2, 3)).cloned().collect();
            let mut first: Vec<&str> = tags.iter().chain(surplus.iter()).cloned().collect();
            r.shuffle(&mut first);
            e2.enable_tags(&first);
            if r.chance(1, 2) {
                e2.disable_tags(&surplus);
            } else {
                for t in &surplus {
                    e2.disable_tags(&[*t]);
                }
            }
            if r.chance(1, 3) {
                let buf = e2.serialize_raw().expect("serialize");
                let mut fresh = adblock::Engine::new(optimize);
                fresh.use_tags(&tags);
                fresh.deserialize(&buf).expect("own buffer");
                e2 = fresh;
            }
            // third engine: a live Blocker that receives the (permuted) rules one add_filter at a time
            let mut live = adblock::blocker::Blocker::new(vec![], &adblock::blocker::BlockerOptions { enable_optimizations: false });
            for line in &permuted {
                let (mut nf, _) = adblock::lists::parse_filters([line], true, opts);
                if let Some(f) = nf.pop() {
                    let _ = live.add_filter(f);
                }
            }
            live.use_tags(&tags);
            let mut scan = Scan::new(&rules, opts);
            let mut out = vec![];
            for _ in 0..4 {
                let nkinds = if r.chance(1, 8) { 5 } else { 3 };
                let url = match r.below(nkinds) {
                    // documents with schemes that are not eligible for matching: never a policy
                    3 => format!("ftp://{}/{}/page", host, tok),
                    4 => format!("{}://{}/{}/page", r.ps(&["file", "blob", "chrome-extension", "about"]), host, tok),
                    0 => format!("https://{}/{}/page", host, tok),
                    1 => format!("https://sub.{}/", host),
                    _ => format!("https://{}/x", r.ps(gen::HOSTS)),
                };
                let source = match r.below(3) {
                    0 => String::new(),
                    1 => format!("https://{}/", host),
                    _ => format!("https://{}/", r.ps(gen::HOSTS)),
                };
                let ty = r.ps(&["document", "subdocument", "main_frame", "sub_frame", "script", "image", "xhr", "other", "websocket", "document", "subdocument"]);
                let rq = match Request::new(&url, &source, ty) {
                    Ok(rq) => rq,
                    Err(_) => continue,
                };
                let got1 = split_csp(&e1.get_csp_directives(&rq));
                let got2 = split_csp(&e2.get_csp_directives(&rq));
                let (want, hits, exc) = scan.csp_detail(&rq, &tagset);
                let nt = hits - exc >= 2 || exc >= 1;
                let mut sigs = vec![];
                if got1 != want {
                    sigs.push("C15:csp-set-differs-from-reference");
                }
                if got1 != got2 {
                    sigs.push("C15:csp-depends-on-rule-order-or-tag-route");
                }
                // independent of the crate's option parser: every directive handed out is, to the
                // letter, a directive written in some csp rule of the list
                if let Some(set) = &got1 {
                    let written: Vec<&str> = rules
                        .iter()
                        .filter(|l| !l.starts_with("@@"))
                        .filter_map(|l| l.rsplit_once('$').map(|x| x.1))
                        .flat_map(|o| o.split(','))
                        .filter_map(|o| o.strip_prefix("csp="))
                        .collect();
                    if set.iter().any(|d| !written.contains(&d.as_str())) {
                        sigs.push("C15:directive-returned-that-no-rule-spells");
                    }
                }
                if split_csp(&live.get_csp_directives(&rq)) != want {
                    sigs.push("C15:incrementally-built-blocker-differs-from-reference");
                }
                let is_doc = matches!(ty, "document" | "subdocument" | "main_frame" | "sub_frame");
                if !is_doc && (got1.is_some() || got2.is_some()) {
                    sigs.push("C15:policy-for-non-document-request");
                }
                let h = fnv(&format!("{:?}|{:?}|{}|{}|{}", rules, tags, url, source, ty));
                let detail = json!({"rules": rules, "permuted_rules": permuted, "tags": tags, "url": url, "source": source, "type": ty,
                    "engine": got1, "engine_permuted_order": got2, "reference": want, "matching_csp_rules": hits, "matching_csp_exceptions": exc});
                out.push((sigs, nt, h, detail, want.is_some()));
            }
            out
        });
        match out {
            Err(sig) => ctx.violation(sub, idx, &format!("C15:{}", sig), json!({})),
            Ok(evs) => {
                for (sigs, nt, h, detail, some) in evs {
                    ctx.eval();
                    if some {
                        ctx.obs("requests_with_a_policy", 1);
                    }
                    if nt {
                        ctx.nontrivial(h);
                    }
                    if sigs.is_empty() {
                        if nt && some {
                            ctx.sample(|| detail);
                        }
                    } else {
                        for s in sigs {
                            ctx.violation(sub, idx, s, detail.clone());
                        }
                    }
                }
            }
        }
    }
}
