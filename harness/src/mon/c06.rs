//! C06 — answers depend only on current rules, tags and resources, not on history.
//!
//! Model-based history monitor. The model is (rule lines in order, enabled tag set, resources).
//! After EVERY query of a random operation history the answer is compared with a *fresh* engine
//! built in one batch from the model. Histories run at Engine level and at Blocker level (where
//! `optimize()` and `add_filter` exist). H3 invariant: no StaleRegex event, ever.

use crate::gen::{self, gen_cluster, gen_request, gen_rule, standard_resources, Profile, TAGS};
use crate::mon::common::{ask, Answer};
use crate::oracle::scan::split_csp;
use crate::report::{guarded, Ctx};
use crate::rng::{fnv, Rng};
use adblock::blocker::{Blocker, BlockerError, BlockerOptions};
use adblock::lists::{parse_filters, ParseOptions};
use adblock::regex_manager::RegexManagerDiscardPolicy;
use adblock::request::Request;
use adblock::resources::ResourceStorage;
use adblock::verif::Event;
use adblock::Engine;
use serde_json::json;
use std::collections::{BTreeSet, HashSet};
use std::sync::atomic::Ordering;
use std::time::Duration;

const P: Profile = Profile {
    exceptions: true,
    important: true,
    csp: true,
    removeparam: false, // not serialized: homed in C08
    redirect: true,
    badfilter: false,
    tags: true,
    generichide: true,
    full_regex: true,
    domains: true,
};

const COSMETIC: &[&str] = &[
    "ads.net##.ad-box",
    "##.generic-ad",
    "###banner_top",
    "##.generic-ad > div",
    "ads.net#@#.generic-ad",
    "example.org,~www.example.org##.ex",
    "ads.net##+js(noopfn, a, b)",
    "track.io##.t:style(color: red !important)",
    "##div[data-ad]",
    "b.co.uk##.bb:has(> .x)",
    // generichide exceptions scoped to part of a site (the answer depends on the page URL, not
    // just on its host)
    "@@||ads.net/embed/$generichide",
    "@@||example.org/player.html$generichide",
];

fn regex_twins(r: &mut Rng) -> Vec<String> {
    let tok = r.ps(&["advert", "banner", "track"]);
    let mut v = vec![
        format!("/{}*a=$tag=t1", tok),
        format!("/{}*b/$tag=t2", tok),
        format!("/{}^x$tag=t3", tok),
        format!("/{}*zz^$tag=t1", tok),
        format!("@@/{}*ok^$tag=t2", tok),
        format!("/\\/{}\\/[ab]\\d?/$tag=t3", tok),
        format!("/{}/*/c$important,tag=t2", tok),
    ];
    r.shuffle(&mut v);
    v.truncate(2 + r.below(5));
    v
}

fn gen_rules(r: &mut Rng) -> Vec<String> {
    let mut rules = regex_twins(r);
    rules.extend(gen_cluster(r, &P));
    for _ in 0..r.below(5) {
        rules.push(gen_rule(r, &P));
    }
    for _ in 0..r.below(4) {
        rules.push(r.ps(COSMETIC).to_string());
    }
    r.shuffle(&mut rules);
    rules
}

fn scriptlet_resources() -> Vec<gen::ResDef> {
    let mut v = standard_resources();
    v.push(gen::ResDef {
        name: "noopfn.js".into(),
        aliases: vec!["noopfn".into()],
        kind: "application/javascript".into(),
        content: "function noopfn(a, b) { return [a, b]; }".into(),
        deps: vec![],
        perm: 0,
    });
    v
}

fn fresh(rules: &[String], tags: &BTreeSet<String>, debug: bool, optimize: bool) -> Engine {
    let mut e = Engine::from_rules_parametrised(rules, ParseOptions::default(), debug, optimize);
    e.use_resources(scriptlet_resources().iter().map(|r| r.to_resource()));
    let t: Vec<&str> = tags.iter().map(|s| s.as_str()).collect();
    e.use_tags(&t);
    e
}

fn pick_tags(r: &mut Rng) -> Vec<&'static str> {
    let mut v = vec![];
    for t in TAGS {
        if r.chance(1, 3) {
            v.push(*t);
        }
    }
    v
}

pub fn run(ctx: &mut Ctx) {
    adblock::verif::set_regex_shadow(true);
    adblock::verif::set_logging(true, 1 << 14);
    if ctx.extra.contains_key("miri") {
        miri_history(ctx);
        return;
    }
    engine_histories(ctx);
    blocker_histories(ctx);
}

struct Hist {
    evals: u64,
    nt: bool,
    viol: Vec<(String, serde_json::Value)>,
    sample: serde_json::Value,
    state_changes: u64,
    regex_events: u64,
    stale: u64,
    reuse: u64,
    ties: u64,
}

fn drain_stale(viol: &mut Vec<(String, serde_json::Value)>, rules: &[String], history: &[String]) -> (u64, u64, u64) {
    let (events, _) = adblock::verif::take_events();
    let mut stale = 0;
    let mut regex_events = 0;
    let mut keys_sources: std::collections::HashMap<u64, String> = Default::default();
    let mut reuse = 0;
    for ev in events {
        match ev {
            Event::StaleRegex { key, cached, wanted } => {
                stale += 1;
                if stale <= 2 {
                    viol.push((
                        "C06:stale-regex".into(),
                        json!({"rules": rules, "history": history, "cache_key": format!("{:x}", key), "cached_regex": cached, "regex_the_rule_compiles_to": wanted}),
                    ));
                }
            }
            Event::RegexCompile { key, source, .. } => {
                regex_events += 1;
                // a key whose source legitimately changed after a purge = observed address reuse
                if let Some(prev) = keys_sources.insert(key, source.clone()) {
                    if prev != source {
                        reuse += 1;
                    }
                }
            }
            Event::RegexHit { .. } => regex_events += 1,
            _ => {}
        }
    }
    (stale, regex_events, reuse)
}

fn engine_histories(ctx: &mut Ctx) {
    let sub = "engine";
    let cases = ctx.n(40_000, 1_000_000);
    for idx in 0..cases {
        if ctx.stop() {
            break;
        }
        if !ctx.begin_case(sub, idx) {
            continue;
        }
        let seed = ctx.seed;
        let out = guarded(|| {
            let _ = adblock::verif::take_events();
            let mut r = Rng::for_case(seed, "c06.engine", idx);
            let rules = gen_rules(&mut r);
            let debug = r.chance(1, 2);
            let mut optimize = r.chance(1, 2);
            let mut tags: BTreeSet<String> = BTreeSet::new();
            let mut e = fresh(&rules, &tags, debug, optimize);
            let maxops = if r.chance(1, 5) { 50 } else { 25 };
            let nops = 10 + r.below(maxops);
            let mut history: Vec<String> = vec![];
            let mut h = Hist { evals: 0, nt: false, viol: vec![], sample: json!(null), state_changes: 0, regex_events: 0, stale: 0, reuse: 0, ties: 0 };
            let reqs: Vec<gen::Req> = (0..4).map(|_| gen_request(&mut r, &rules)).collect();
            let pages = ["https://ads.net/", "https://sub.ads.net/p", "https://www.example.org/", "https://track.io/x", "https://x.b.co.uk/",
                "https://ads.net/embed/x", "https://ads.net/other", "https://example.org/player.html", "https://example.org/index.html"];
            let mut queries_after_change = 0u64;
            for _ in 0..nops {
                match r.below(21) {
                    0..=6 => {
                        let q = r.pick(&reqs);
                        if let Ok(rq) = Request::new(&q.url, &q.source, q.rtype) {
                            history.push(format!("check({}, {}, {})", q.url, q.source, q.rtype));
                            let got = ask(&e, &rq);
                            let want = ask(&fresh(&rules, &tags, debug, optimize), &rq);
                            h.evals += 1;
                            if h.state_changes > 0 {
                                queries_after_change += 1;
                            }
                            if !got.same_verdict(&want) && differs_only_by_redirect_tie(&got, &want, &rules, &tags, &rq, &q.url, &scriptlet_resources()) {
                                h.ties += 1;
                            } else if !got.same_verdict(&want) {
                                h.viol.push((
                                    "C06:network-answer-depends-on-history".into(),
                                    json!({"rules": rules, "history": history, "enabled_tags": tags, "optimize": optimize, "debug": debug,
                                        "engine_with_history": got.to_json(), "fresh_engine": want.to_json()}),
                                ));
                            }
                        }
                    }
                    7 | 8 => {
                        let page = r.ps(&pages);
                        history.push(format!("url_cosmetic_resources({})", page));
                        let got = e.url_cosmetic_resources(page);
                        let f = fresh(&rules, &tags, debug, optimize);
                        let want = f.url_cosmetic_resources(page);
                        h.evals += 1;
                        if got != want {
                            h.viol.push((
                                "C06:cosmetic-answer-depends-on-history".into(),
                                json!({"rules": rules, "history": history, "page": page, "engine_with_history": format!("{:?}", got), "fresh_engine": format!("{:?}", want)}),
                            ));
                        }
                        let classes = ["generic-ad", "ad-box", "ex"];
                        let ids = ["banner_top"];
                        let mut a = e.hidden_class_id_selectors(classes, ids, &got.exceptions);
                        let mut b = f.hidden_class_id_selectors(classes, ids, &want.exceptions);
                        a.sort();
                        b.sort();
                        h.evals += 1;
                        if a != b {
                            h.viol.push((
                                "C06:class-id-answer-depends-on-history".into(),
                                json!({"rules": rules, "history": history, "engine_with_history": a, "fresh_engine": b}),
                            ));
                        }
                    }
                    9 => {
                        let t = pick_tags(&mut r);
                        history.push(format!("use_tags({:?})", t));
                        e.use_tags(&t);
                        tags = t.iter().map(|s| s.to_string()).collect();
                        h.state_changes += 1;
                    }
                    10 => {
                        let t = pick_tags(&mut r);
                        history.push(format!("enable_tags({:?})", t));
                        e.enable_tags(&t);
                        tags.extend(t.iter().map(|s| s.to_string()));
                        h.state_changes += 1;
                    }
                    11 => {
                        let t = pick_tags(&mut r);
                        history.push(format!("disable_tags({:?})", t));
                        e.disable_tags(&t);
                        for x in &t {
                            tags.remove(*x);
                        }
                        h.state_changes += 1;
                    }
                    12 => {
                        // free-then-reallocate pattern that recycles rule addresses
                        let a = *r.pick(TAGS);
                        let b = *r.pick(TAGS);
                        history.push(format!("use_tags([{}]); <query>; use_tags([]); use_tags([{}])", a, b));
                        e.use_tags(&[a]);
                        for q in &reqs {
                            if let Ok(rq) = Request::new(&q.url, &q.source, q.rtype) {
                                let _ = e.check_network_request(&rq);
                            }
                        }
                        e.use_tags(&[]);
                        e.use_tags(&[b]);
                        tags = [b.to_string()].into_iter().collect();
                        h.state_changes += 1;
                    }
                    13 => {
                        let (ci, du) = match r.below(4) {
                            0 => (Duration::from_nanos(1), Duration::from_nanos(1)),
                            1 => (Duration::from_secs(3600), Duration::from_secs(7200)),
                            2 => (Duration::ZERO, Duration::from_nanos(1)),
                            _ => (Duration::from_nanos(1), Duration::from_secs(3600)),
                        };
                        history.push(format!("set_regex_discard_policy(cleanup={:?}, unused={:?})", ci, du));
                        e.set_regex_discard_policy(RegexManagerDiscardPolicy { cleanup_interval: ci, discard_unused_time: du });
                        h.state_changes += 1;
                    }
                    14 => {
                        let info = e.get_regex_debug_info();
                        if !info.regex_data.is_empty() {
                            let id = info.regex_data[r.below(info.regex_data.len())].id;
                            history.push("discard_regex(<random compiled regex>)".to_string());
                            e.discard_regex(id);
                            h.state_changes += 1;
                        }
                    }
                    15 | 16 => {
                        history.push("serialize_raw(); deserialize() into the same engine".into());
                        let buf = e.serialize_raw().expect("serialize");
                        e.deserialize(&buf).expect("deserialize own buffer");
                        h.state_changes += 1;
                    }
                    18 => {
                        // load a buffer that a twin engine serialized under some other tag set: the
                        // rules are the same, the caller's enabled set must be kept
                        let other_tags = pick_tags(&mut r);
                        let mut twin = fresh(&rules, &BTreeSet::new(), debug, optimize);
                        twin.use_tags(&other_tags);
                        let buf = twin.serialize_raw().expect("serialize");
                        history.push(format!("deserialize(buffer of the same rules serialized under tags {:?})", other_tags));
                        e.deserialize(&buf).expect("deserialize twin buffer");
                        h.state_changes += 1;
                    }
                    17 => {
                        let new_opt = r.chance(1, 2);
                        history.push(format!("serialize_raw(); deserialize() into Engine::new({}) which replaces the engine", new_opt));
                        let buf = e.serialize_raw().expect("serialize");
                        let mut e2 = Engine::new(new_opt);
                        e2.deserialize(&buf).expect("deserialize own buffer");
                        e2.use_resources(scriptlet_resources().iter().map(|r| r.to_resource()));
                        e = e2;
                        tags.clear();
                        h.state_changes += 1;
                        let _ = &mut optimize; // the optimise flag travels inside the buffer
                    }
                    19 | 20 | _ => {
                        // a burst of queries to warm the regex cache
                        for q in &reqs {
                            if let Ok(rq) = Request::new(&q.url, &q.source, q.rtype) {
                                let got = ask(&e, &rq);
                                let want = ask(&fresh(&rules, &tags, debug, optimize), &rq);
                                h.evals += 1;
                                if !got.same_verdict(&want) && differs_only_by_redirect_tie(&got, &want, &rules, &tags, &rq, &q.url, &scriptlet_resources()) {
                                    h.ties += 1;
                                } else if !got.same_verdict(&want) {
                                    history.push(format!("check({}, {}, {})", q.url, q.source, q.rtype));
                                    h.viol.push((
                                        "C06:network-answer-depends-on-history".into(),
                                        json!({"rules": rules, "history": history, "enabled_tags": tags, "optimize": optimize, "debug": debug,
                                            "engine_with_history": got.to_json(), "fresh_engine": want.to_json()}),
                                    ));
                                }
                            }
                        }
                        history.push("check(<all battery requests>)".into());
                    }
                }
            }
            let (stale, regex_events, reuse) = drain_stale(&mut h.viol, &rules, &history);
            h.stale = stale;
            h.regex_events = regex_events;
            h.reuse = reuse;
            h.nt = h.state_changes > 0 && queries_after_change > 0 && regex_events >= 2;
            h.sample = json!({"rules": rules, "history": history});
            h
        });
        absorb(ctx, sub, idx, out);
    }
}

/// A short, fixed-shape history for the Miri interpreter (regex compilation costs seconds there):
/// the free-then-reallocate tag pattern, a reload, and a discard, each followed by a query that is
/// compared with a fresh engine. Run with `-Zmiri-address-reuse-rate=1.0`, so that freed rule
/// addresses are handed out again immediately; also checks the pointer-as-key code for UB.
fn miri_history(ctx: &mut Ctx) {
    let sub = "miri";
    let cases = ctx.n(1, 3);
    for idx in 0..cases {
        if !ctx.begin_case(sub, idx) {
            continue;
        }
        let seed = ctx.seed;
        let out = guarded(|| {
            let _ = adblock::verif::take_events();
            let mut r = Rng::for_case(seed, "c06.miri", idx);
            let a = r.ps(&["ab", "cd", "ef"]);
            let b = r.ps(&["zz", "yy", "xx"]);
            let rules: Vec<String> = vec![
                format!("/{}*c^$tag=t1", a),
                format!("/{}*y^$tag=t2", b),
                "||ads.net^".to_string(),
                format!("@@/{}*ok^$tag=t2", a),
            ];
            let u1 = format!("https://x.com/{}1c/", a);
            let u2 = format!("https://x.com/{}1y/", b);
            let mut tags: BTreeSet<String> = BTreeSet::new();
            let mut e = fresh(&rules, &tags, true, false);
            let mut history: Vec<String> = vec![];
            let mut h = Hist { evals: 0, nt: false, viol: vec![], sample: json!(null), state_changes: 0, regex_events: 0, stale: 0, reuse: 0, ties: 0 };
            let steps: Vec<(&str, Vec<&str>)> = vec![("use", vec!["t1"]), ("q", vec![]), ("use", vec![]), ("use", vec!["t2"]), ("q", vec![]), ("reload", vec![]), ("q", vec![])];
            for (op, arg) in steps {
                match op {
                    "use" => {
                        history.push(format!("use_tags({:?})", arg));
                        e.use_tags(&arg);
                        tags = arg.iter().map(|s| s.to_string()).collect();
                        h.state_changes += 1;
                    }
                    "reload" => {
                        history.push("serialize_raw(); deserialize()".into());
                        let buf = e.serialize_raw().expect("serialize");
                        e.deserialize(&buf).expect("deserialize");
                        h.state_changes += 1;
                    }
                    _ => {
                        let f = fresh(&rules, &tags, true, false);
                        for u in [&u1, &u2] {
                            let rq = Request::new(u, "https://other.org/", "script").unwrap();
                            history.push(format!("check({})", u));
                            let got = ask(&e, &rq);
                            let want = ask(&f, &rq);
                            h.evals += 1;
                            if !got.same_verdict(&want) {
                                h.viol.push((
                                    "C06:network-answer-depends-on-history".into(),
                                    json!({"rules": rules, "history": history, "engine_with_history": got.to_json(), "fresh_engine": want.to_json()}),
                                ));
                            }
                        }
                    }
                }
            }
            let (stale, regex_events, reuse) = drain_stale(&mut h.viol, &rules, &history);
            h.stale = stale;
            h.regex_events = regex_events;
            h.reuse = reuse;
            h.nt = regex_events >= 2;
            h.sample = json!({"rules": rules, "history": history});
            h
        });
        absorb(ctx, sub, idx, out);
    }
}

fn absorb(ctx: &mut Ctx, sub: &str, idx: u64, out: Result<Hist, String>) {
    match out {
        Err(sig) => ctx.violation(sub, idx, &format!("C06:{}", sig), json!({})),
        Ok(h) => {
            ctx.evals(h.evals);
            ctx.obs("state_changes", h.state_changes as i64);
            ctx.obs("regex_compile_or_hit_events", h.regex_events as i64);
            ctx.obs("stale_regex_events", h.stale as i64);
            ctx.obs("answers_differing_only_by_an_equal_priority_redirect_tie", h.ties as i64);
            ctx.obs("rule_addresses_seen_with_more_than_one_regex_source_(allocator_reuse,_all_engines_of_the_history)", h.reuse as i64);
            if h.nt {
                ctx.nontrivial(fnv(&h.sample.to_string()));
                ctx.sample_tagged(sub, || h.sample);
            }
            for (sig, d) in h.viol {
                ctx.violation(sub, idx, &sig, d);
            }
        }
    }
}

/// Two answers that differ only in `redirect` are still equal for this property if both values are
/// among the resources of the equal-highest-priority matching redirect rules: which of several
/// equal-priority redirects wins is left open by the statement (C13 treats it as set-valued), and
/// it legitimately depends on bucket order, which `add_filter` and batch construction choose
/// differently.
fn differs_only_by_redirect_tie(got: &Answer, want: &Answer, rules: &[String], tags: &BTreeSet<String>, rq: &Request, url: &str, resdefs: &[gen::ResDef]) -> bool {
    if got.matched != want.matched || got.important != want.important || got.exception != want.exception || got.rewritten != want.rewritten || got.csp != want.csp {
        return false;
    }
    let mut scan = crate::oracle::scan::Scan::new(rules, ParseOptions::default());
    let tagset: HashSet<String> = tags.iter().cloned().collect();
    let v = scan.verdict(rq, url, &tagset, &crate::oracle::resources::ResModel { defs: resdefs });
    v.redirect_ok.len() > 1 && v.redirect_ok.contains(&got.redirect) && v.redirect_ok.contains(&want.redirect)
}

fn blocker_answer(b: &Blocker, res: &ResourceStorage, rq: &Request) -> Answer {
    let r = b.check(rq, res);
    Answer {
        matched: r.matched,
        important: r.important,
        exception: r.exception.is_some(),
        redirect: r.redirect,
        rewritten: r.rewritten_url,
        csp: split_csp(&b.get_csp_directives(rq)),
        filter: r.filter,
        exception_text: r.exception,
    }
}

fn fresh_blocker(rules: &[String], tags: &BTreeSet<String>, optimize: bool) -> Blocker {
    let (nf, _) = parse_filters(rules, true, ParseOptions::default());
    let mut b = Blocker::new(nf, &BlockerOptions { enable_optimizations: optimize });
    let t: Vec<&str> = tags.iter().map(|s| s.as_str()).collect();
    b.use_tags(&t);
    b
}

/// Blocker level: batch vs incremental (`add_filter`), explicit `optimize()`.
fn blocker_histories(ctx: &mut Ctx) {
    let sub = "blocker";
    let cases = ctx.n(40_000, 1_000_000);
    let resdefs = standard_resources();
    for idx in 0..cases {
        if ctx.stop() {
            break;
        }
        if !ctx.begin_case(sub, idx) {
            continue;
        }
        let seed = ctx.seed;
        let out = guarded(|| {
            let _ = adblock::verif::take_events();
            let mut r = Rng::for_case(seed, "c06.blocker", idx);
            let mut all: Vec<String> = gen_rules(&mut r).into_iter().filter(|l| !l.contains("##") && !l.contains("#@#")).collect();
            if r.chance(1, 3) {
                // (no serialization at this level, so removeparam clusters can take part)
                all.extend(gen_cluster(&mut r, &Profile::ALL).into_iter().filter(|l| !l.contains("badfilter")));
                r.shuffle(&mut all);
            }
            if r.chance(1, 4) {
                // removeparam rules sharing bucket and mask: an explicit optimize() must leave them apart
                all.push(format!("/rp/a$removeparam={}", r.ps(&["ad", "foo"])));
                all.push(format!("/rp/b$removeparam={}", r.ps(&["foo", "keep"])));
                r.shuffle(&mut all);
            }
            let split = r.below(all.len() + 1);
            let mut rules: Vec<String> = all[..split].to_vec();
            let mut pending: Vec<String> = all[split..].to_vec();
            let storage = ResourceStorage::from_resources(resdefs.iter().map(|d| d.to_resource()));
            let mut tags: BTreeSet<String> = BTreeSet::new();
            // add_filter never optimises, so the batch twin is built unoptimised unless optimize()
            // was called explicitly, after which both sides may be in any optimisation state
            // (C05: optimisation changes no verdict).
            let mut b = fresh_blocker(&rules, &tags, false);
            let mut history: Vec<String> = vec![format!("Blocker::new({} rules)", rules.len())];
            let mut h = Hist { evals: 0, nt: false, viol: vec![], sample: json!(null), state_changes: 0, regex_events: 0, stale: 0, reuse: 0, ties: 0 };
            let nops = 10 + r.below(30);
            let mut reqs: Vec<gen::Req> = (0..4).map(|_| gen_request(&mut r, &all)).collect();
            if all.iter().any(|l| l.starts_with("/rp/")) {
                for x in ["a", "b"] {
                    reqs.push(gen::Req { url: format!("https://x.com/rp/{}?ad=1&foo=2&keep=3", x), source: "https://o.org/".into(), rtype: "xhr" });
                }
            }
            let mut queries_after_change = 0;
            let mut forced: Vec<usize> = vec![];
            let mut remaining = nops;
            while remaining > 0 || !forced.is_empty() {
                let op = if forced.is_empty() {
                    remaining -= 1;
                    r.below(13)
                } else {
                    0
                };
                match op {
                    0..=4 => {
                        let q = match forced.pop() {
                            Some(i) => reqs[i].clone(),
                            None => r.pick(&reqs).clone(),
                        };
                        if let Ok(rq) = Request::new(&q.url, &q.source, q.rtype) {
                            history.push(format!("check({}, {}, {})", q.url, q.source, q.rtype));
                            let got = blocker_answer(&b, &storage, &rq);
                            let want = blocker_answer(&fresh_blocker(&rules, &tags, false), &storage, &rq);
                            h.evals += 1;
                            if h.state_changes > 0 {
                                queries_after_change += 1;
                            }
                            if !got.same_verdict(&want) && differs_only_by_redirect_tie(&got, &want, &rules, &tags, &rq, &q.url, &resdefs) {
                                h.ties += 1;
                            } else if !got.same_verdict(&want) {
                                h.viol.push((
                                    "C06:blocker-answer-depends-on-history".into(),
                                    json!({"rules_in_model_order": rules, "history": history, "enabled_tags": tags,
                                        "blocker_with_history": got.to_json(), "fresh_blocker_built_in_one_batch": want.to_json()}),
                                ));
                            }
                        }
                    }
                    5 | 6 => {
                        if let Some(line) = pending.pop() {
                            let (mut nf, _) = parse_filters([&line], true, ParseOptions::default());
                            if let Some(f) = nf.pop() {
                                let res = b.add_filter(f);
                                history.push(format!("add_filter({}) -> {:?}", line, res));
                                match res {
                                    Ok(()) => rules.push(line.clone()),
                                    Err(BlockerError::FilterExists) => {
                                        if !rules.contains(&line) {
                                            h.viol.push((
                                                "C06:add_filter-reports-FilterExists-for-a-new-rule".into(),
                                                json!({"rules_in_model_order": rules, "history": history, "added": line}),
                                            ));
                                        }
                                    }
                                    Err(BlockerError::BadFilterAddUnsupported) => {}
                                }
                                reqs.push(gen_request(&mut r, &[line]));
                                h.state_changes += 1;
                            }
                        }
                    }
                    7 => {
                        history.push("optimize()".into());
                        b.optimize();
                        h.state_changes += 1;
                    }
                    12 => {
                        // optimise, grow, optimise again (already fused rules meet new neighbours),
                        // then ask every request
                        history.push("optimize()".into());
                        b.optimize();
                        for _ in 0..1 + r.below(4) {
                            if let Some(line) = pending.pop() {
                                let (mut nf, _) = parse_filters([&line], true, ParseOptions::default());
                                if let Some(f) = nf.pop() {
                                    let res = b.add_filter(f);
                                    history.push(format!("add_filter({}) -> {:?}", line, res));
                                    if res.is_ok() {
                                        rules.push(line.clone());
                                    }
                                    reqs.push(gen_request(&mut r, &[line]));
                                }
                            }
                        }
                        history.push("optimize()".into());
                        b.optimize();
                        h.state_changes += 1;
                        forced = (0..reqs.len()).collect();
                    }
                    8 => {
                        let t = pick_tags(&mut r);
                        history.push(format!("use_tags({:?})", t));
                        b.use_tags(&t);
                        tags = t.iter().map(|s| s.to_string()).collect();
                        h.state_changes += 1;
                    }
                    9 => {
                        let a = *r.pick(TAGS);
                        let c = *r.pick(TAGS);
                        history.push(format!("use_tags([{}]); <queries>; use_tags([]); use_tags([{}])", a, c));
                        b.use_tags(&[a]);
                        for q in &reqs {
                            if let Ok(rq) = Request::new(&q.url, &q.source, q.rtype) {
                                let _ = b.check(&rq, &storage);
                            }
                        }
                        b.use_tags(&[]);
                        b.use_tags(&[c]);
                        tags = [c.to_string()].into_iter().collect();
                        h.state_changes += 1;
                    }
                    10 => {
                        history.push("set_regex_discard_policy(1ns, 1ns)".into());
                        b.set_regex_discard_policy(RegexManagerDiscardPolicy {
                            cleanup_interval: Duration::from_nanos(1),
                            discard_unused_time: Duration::from_nanos(1),
                        });
                        h.state_changes += 1;
                    }
                    _ => {
                        let t = pick_tags(&mut r);
                        if r.chance(1, 2) {
                            history.push(format!("enable_tags({:?})", t));
                            b.enable_tags(&t);
                            tags.extend(t.iter().map(|s| s.to_string()));
                        } else {
                            history.push(format!("disable_tags({:?})", t));
                            b.disable_tags(&t);
                            for x in &t {
                                tags.remove(*x);
                            }
                        }
                        h.state_changes += 1;
                    }
                }
            }
            let (stale, regex_events, reuse) = drain_stale(&mut h.viol, &rules, &history);
            h.stale = stale;
            h.regex_events = regex_events;
            h.reuse = reuse;
            h.nt = h.state_changes > 0 && queries_after_change > 0 && regex_events >= 2;
            h.sample = json!({"rules": rules, "history": history});
            h
        });
        absorb(ctx, sub, idx, out);
    }
    let _ = HashSet::<u8>::new();
    ctx.obs("regex_compiles_total", adblock::verif::REGEX_COMPILES.load(Ordering::Relaxed) as i64);
    ctx.obs("regex_hits_total", adblock::verif::REGEX_HITS.load(Ordering::Relaxed) as i64);
}
