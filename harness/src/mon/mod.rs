pub mod common;
pub mod c01;
