pub mod common;
pub mod c01;
pub mod c02;
pub mod c03;
pub mod c05;
pub mod c04;
pub mod c07;
pub mod c06;
