//! C07 — tagged rules are active exactly when their tag is enabled.
//!
//! Model: enabled set S updated by use (assignment), enable (union), disable (difference);
//! deserialize keeps S. After every operation: `tag_exists(t) == (t in S)` for every vocabulary tag
//! and a few never-used ones, and a verdict battery vs O-scan with `active(rule) <=> tag in S`.

use crate::gen::{self, gen_request, gen_rule, standard_resources, Profile};
use crate::mon::common::{ask, build_engine, diff, verdict_json};
use crate::oracle::resources::ResModel;
use crate::oracle::scan::Scan;
use crate::report::{guarded, Ctx};
use crate::rng::{fnv, Rng};
use adblock::lists::ParseOptions;
use adblock::request::Request;
use serde_json::json;
use std::collections::{BTreeSet, HashSet};

const VOCAB: &[&str] = &["t1", "t2", "t3", "", "T1"];
const NEVER: &[&str] = &["zz", "t", "t11"];

const NOTAGS: Profile = Profile {
    exceptions: true,
    important: true,
    csp: true,
    removeparam: false,
    redirect: false,
    badfilter: false,
    tags: false,
    generichide: false,
    full_regex: true,
    domains: true,
};

fn tagged_list(r: &mut Rng) -> (Vec<String>, gen::Req) {
    let host = r.ps(gen::HOSTS);
    let t1 = r.ps(gen::TOK);
    let t2 = r.ps(gen::TOK);
    let url = format!("https://{}/{}/{}.js?x1=1", host, t1, t2);
    let frags: Vec<String> = vec![
        format!("||{}^", host),
        format!("||{}/{}", host, t1),
        format!("/{}/{}.", t1, t2),
        format!("/{}/", t1),
        format!("{}.js", t2),
        format!("/{}/*.js", t1),
        format!("/\\/{}\\/[a-z0-9]+\\.js/", t1),
        format!("/{}^{}", t1, t2),
    ];
    let k = 2 + r.below(7);
    let mut rules = vec![];
    for _ in 0..k {
        let f = r.pick(&frags).clone();
        let mut opts: Vec<String> = vec![];
        let mut line = String::new();
        // categories a tag can be combined with: blocking, exception, important, csp
        match r.below(8) {
            0 | 1 => {
                line.push_str("@@");
                if r.chance(1, 6) {
                    opts.push("important".into());
                }
            }
            2 | 3 => opts.push("important".into()),
            4 => opts.push(format!("csp={}", r.ps(gen::CSP_DIRECTIVES))),
            5 => {
                line.push_str("@@");
                opts.push(if r.chance(1, 2) { "csp".to_string() } else { format!("csp={}", r.ps(gen::CSP_DIRECTIVES)) });
            }
            _ => {}
        }
        line.push_str(&f);
        if r.chance(3, 4) {
            opts.push(format!("tag={}", r.ps(VOCAB)));
        }
        if r.chance(1, 6) && !opts.iter().any(|o| o.starts_with("csp")) {
            opts.push(r.ps(&["script", "~image", "document", "subdocument,script"]).into());
        }
        if !opts.is_empty() {
            r.shuffle(&mut opts);
            line.push('$');
            line.push_str(&opts.join(","));
        }
        rules.push(line);
    }
    for _ in 0..r.below(4) {
        rules.push(gen_rule(r, &NOTAGS));
    }
    r.shuffle(&mut rules);
    (
        rules,
        gen::Req {
            url,
            source: format!("https://{}/", r.ps(gen::HOSTS)),
            rtype: r.ps(&["script", "script", "document", "subdocument", "image"]),
        },
    )
}

pub fn run(ctx: &mut Ctx) {
    seq(ctx);
    incremental(ctx);
}

/// Blocker level: tagged rules of every category added one at a time (`add_filter`) while tags
/// are being switched; after every operation the verdicts must be those of the rules added so far
/// with `active(rule) <=> tag in S`.
fn incremental(ctx: &mut Ctx) {
    use adblock::blocker::{Blocker, BlockerOptions};
    use adblock::lists::parse_filters;
    use adblock::resources::ResourceStorage;
    let sub = "incr";
    let cases = ctx.n(40_000, 2_000_000);
    let resdefs = standard_resources();
    let res = ResModel { defs: &resdefs };
    for idx in 0..cases {
        if ctx.stop() {
            break;
        }
        if !ctx.begin_case(sub, idx) {
            continue;
        }
        let seed = ctx.seed;
        let out = guarded(|| {
            let mut r = Rng::for_case(seed, "c07.incr", idx);
            let (all, target) = tagged_list(&mut r);
            let opts = ParseOptions::default();
            let split = r.below(all.len() + 1);
            let mut rules: Vec<String> = all[..split].to_vec();
            let mut pending: Vec<String> = all[split..].to_vec();
            let (nf, _) = parse_filters(&rules, true, opts);
            let mut b = Blocker::new(nf, &BlockerOptions { enable_optimizations: r.chance(1, 2) });
            let storage = ResourceStorage::from_resources(resdefs.iter().map(|d| d.to_resource()));
            let mut model: BTreeSet<String> = BTreeSet::new();
            let mut battery = vec![target];
            for _ in 0..2 {
                battery.push(gen_request(&mut r, &all));
            }
            let mut history: Vec<String> = vec![format!("Blocker::new({} rules)", rules.len())];
            let mut viol: Vec<(String, serde_json::Value)> = vec![];
            let mut evals = 0u64;
            let mut added_while_enabled = 0u64;
            for _ in 0..3 + r.below(12) {
                let mut tags: Vec<&str> = vec![];
                for _ in 0..r.below(3) {
                    tags.push(r.ps(VOCAB));
                }
                match r.below(10) {
                    0..=1 => {
                        history.push(format!("use_tags({:?})", tags));
                        b.use_tags(&tags);
                        model = tags.iter().map(|s| s.to_string()).collect();
                    }
                    2..=3 => {
                        history.push(format!("enable_tags({:?})", tags));
                        b.enable_tags(&tags);
                        model.extend(tags.iter().map(|s| s.to_string()));
                    }
                    4..=5 => {
                        history.push(format!("disable_tags({:?})", tags));
                        b.disable_tags(&tags);
                        for t in &tags {
                            model.remove(*t);
                        }
                    }
                    _ => {
                        if let Some(line) = pending.pop() {
                            let (mut nf, _) = parse_filters([&line], true, opts);
                            if let Some(f) = nf.pop() {
                                let tag_on = f.verif_tag().map(|t| model.contains(t)).unwrap_or(false);
                                let res = b.add_filter(f);
                                history.push(format!("add_filter({}) -> {:?}", line, res));
                                if res.is_ok() {
                                    rules.push(line);
                                    if tag_on {
                                        added_while_enabled += 1;
                                    }
                                }
                            }
                        }
                    }
                }
                let tagset: HashSet<String> = model.iter().cloned().collect();
                let mut scan = Scan::new(&rules, opts);
                for q in &battery {
                    let rq = match Request::new(&q.url, &q.source, q.rtype) {
                        Ok(rq) => rq,
                        Err(_) => continue,
                    };
                    evals += 1;
                    let a = crate::mon::c05::blocker_answer(&b, &storage, &rq);
                    let v = scan.verdict(&rq, &q.url, &tagset, &res);
                    let d = diff(&a, &v);
                    if !d.is_empty() {
                        viol.push((
                            format!("C07:incremental-verdict:{}", d.join("+")),
                            json!({"rules_added_so_far": rules, "history": history, "enabled_tags_model": model, "url": q.url, "source": q.source,
                                "type": q.rtype, "blocker": a.to_json(), "oracle": verdict_json(&v)}),
                        ));
                    }
                }
            }
            (evals, added_while_enabled, viol, json!({"rules": rules, "history": history}))
        });
        match out {
            Err(sig) => ctx.violation(sub, idx, &format!("C07:{}", sig), json!({})),
            Ok((evals, added, viol, sample)) => {
                ctx.evals(evals);
                if added > 0 {
                    ctx.obs("tagged_rules_added_while_their_tag_was_enabled", added as i64);
                    ctx.nontrivial(fnv(&sample.to_string()));
                }
                for (sig, d) in viol {
                    ctx.violation(sub, idx, &sig, d);
                }
            }
        }
    }
}

fn seq(ctx: &mut Ctx) {
    let sub = "seq";
    let cases = ctx.n(150_000, 8_000_000);
    let resdefs = standard_resources();
    let res = ResModel { defs: &resdefs };
    for idx in 0..cases {
        if ctx.stop() {
            break;
        }
        if !ctx.begin_case(sub, idx) {
            continue;
        }
        let seed = ctx.seed;
        let out = guarded(|| {
            let mut r = Rng::for_case(seed, "c07.seq", idx);
            let (rules, target) = tagged_list(&mut r);
            let optimize = r.chance(1, 2);
            let debug = r.chance(1, 2);
            let opts = ParseOptions::default();
            let mut e = build_engine(&rules, opts, debug, optimize);
            let mut scan = Scan::new(&rules, opts);
            let mut model: BTreeSet<String> = BTreeSet::new();
            let mut battery = vec![target];
            for _ in 0..2 {
                battery.push(gen_request(&mut r, &rules));
            }
            let reqs: Vec<(Request, &gen::Req)> = battery
                .iter()
                .filter_map(|q| Request::new(&q.url, &q.source, q.rtype).ok().map(|rq| (rq, q)))
                .collect();
            let maxops = if r.chance(1, 4) { 25 } else { 8 };
            let nops = 1 + r.below(maxops);
            let mut history: Vec<String> = vec![];
            let mut viol: Vec<(String, serde_json::Value)> = vec![];
            let mut evals = 0u64;
            // activity tracking for the non-triviality rule
            let mut active_seen: Vec<(bool, bool)> = vec![(false, false); scan.rules.len()]; // (was active, was inactive) while matching
            for _ in 0..nops {
                let k = r.below(4);
                let mut tags: Vec<&str> = vec![];
                for _ in 0..r.below(4) {
                    let pool = if r.chance(1, 8) { NEVER } else { VOCAB };
                    tags.push(r.ps(pool));
                }
                if r.chance(1, 6) && !tags.is_empty() {
                    let t = tags[0];
                    tags.push(t); // duplicate in one call
                }
                match r.below(11) {
                    10 => {
                        // a rejected load changes nothing, the enabled set included
                        let junk: &[u8] = match k {
                            0 => b"",
                            1 => b"\xd1\xd9\x3a\xaf\x01junk",
                            2 => b"not a serialized engine",
                            _ => b"\xd1\xd9\x3a\xaf\x00\xdc\x00\x13",
                        };
                        history.push(format!("deserialize(<{} junk bytes>) -> rejected", junk.len()));
                        if e.deserialize(junk).is_ok() {
                            viol.push(("C07:junk-buffer-accepted".into(), json!({"history": history})));
                        }
                    }
                    0..=2 => {
                        history.push(format!("use_tags({:?})", tags));
                        e.use_tags(&tags);
                        model = tags.iter().map(|s| s.to_string()).collect();
                    }
                    3..=5 => {
                        history.push(format!("enable_tags({:?})", tags));
                        e.enable_tags(&tags);
                        model.extend(tags.iter().map(|s| s.to_string()));
                    }
                    6..=7 => {
                        history.push(format!("disable_tags({:?})", tags));
                        e.disable_tags(&tags);
                        for t in &tags {
                            model.remove(*t);
                        }
                    }
                    _ => {
                        // deserialize a buffer produced by another engine under a different tag set
                        let mut other = build_engine(&rules, opts, debug, k % 2 == 0);
                        other.use_tags(&tags);
                        let buf = other.serialize_raw().expect("serialize");
                        history.push(format!("deserialize(buffer serialized under tags {:?})", tags));
                        e.deserialize(&buf).expect("deserialize own buffer");
                        e.use_resources(standard_resources().iter().map(|r| r.to_resource()));
                    }
                }
                // membership
                for t in VOCAB.iter().chain(NEVER.iter()) {
                    evals += 1;
                    let got = e.tag_exists(t);
                    let want = model.contains(*t);
                    if got != want {
                        viol.push((
                            "C07:tag_exists".into(),
                            json!({"rules": rules, "history": history, "tag": t, "tag_exists": got, "model": want}),
                        ));
                    }
                }
                // verdict battery
                let tagset: HashSet<String> = model.iter().cloned().collect();
                for (rq, q) in &reqs {
                    evals += 1;
                    let a = ask(&e, rq);
                    let v = scan.verdict(rq, &q.url, &tagset, &res);
                    for i in scan.hits(rq) {
                        if let Some(t) = scan.rules[i].tag.as_ref() {
                            if tagset.contains(t) {
                                active_seen[i].0 = true;
                            } else {
                                active_seen[i].1 = true;
                            }
                        }
                    }
                    let d = diff(&a, &v);
                    if !d.is_empty() {
                        viol.push((
                            format!("C07:verdict:{}", d.join("+")),
                            json!({"rules": rules, "history": history, "enabled_tags_model": model, "optimize": optimize, "url": q.url, "source": q.source,
                                "type": q.rtype, "engine": a.to_json(), "oracle": verdict_json(&v)}),
                        ));
                    }
                }
            }
            let nt = active_seen.iter().any(|(a, b)| *a && *b);
            let cats: Vec<String> = scan
                .rules
                .iter()
                .zip(active_seen.iter())
                .filter(|(_, (a, b))| *a && *b)
                .map(|(r, _)| format!("{:?}", r.cat))
                .collect();
            (evals, nt, cats, viol, json!({"rules": rules, "history": history}))
        });
        match out {
            Err(sig) => ctx.violation(sub, idx, &format!("C07:{}", sig), json!({})),
            Ok((evals, nt, cats, viol, sample)) => {
                ctx.evals(evals);
                if nt {
                    ctx.nontrivial(fnv(&sample.to_string()));
                    ctx.sample(|| sample);
                    for c in cats {
                        ctx.obs(&format!("toggled_while_matching_{}", c), 1);
                    }
                }
                for (sig, d) in viol {
                    ctx.violation(sub, idx, &sig, d);
                }
            }
        }
    }
}
