//! C08 — a deserialized engine behaves identically to the engine that was serialized.
//!
//! Differential twins: E and E' = deserialize(serialize(E)) answer a battery (network verdicts under
//! several tag sets, CSP, per-site cosmetic resources, class/id lookups); a field-level monitor
//! (H4 walker) compares the multiset of stored rules. Known defects are attributed only when E'
//! *equals* a defect-aware twin (list minus removeparam lines / cosmetic rules re-parsed with
//! default permission); any other deviation is a violation.

use crate::gen::{self, gen_list, gen_request, Profile, ResDef, TAGS};
use crate::gen_cos::{gen_cos_list, PAGES};
use crate::mon::common::{ask, Answer};
use crate::report::{guarded, Ctx};
use crate::rng::{fnv, Rng};
use adblock::lists::{FilterSet, ParseOptions};
use adblock::request::Request;
use adblock::resources::PermissionMask;
use adblock::Engine;
use serde_json::json;
use std::collections::BTreeMap;

pub fn scriptlet_resources() -> Vec<ResDef> {
    let mut v = gen::standard_resources();
    let mk = |name: &str, kind: &str, content: &str, deps: &[&str], perm: u8| ResDef {
        name: name.into(),
        aliases: vec![name.trim_end_matches(".js").to_string()],
        kind: kind.into(),
        content: content.into(),
        deps: deps.iter().map(|s| s.to_string()).collect(),
        perm,
    };
    v.push(mk("s0.js", "application/javascript", "function s0() { /*S0*/ }", &[], 0));
    v.push(mk("s1.js", "application/javascript", "function s1(a) { /*S1*/ }", &["dep1.fn"], 0));
    v.push(mk("s2.js", "application/javascript", "function s2(a, b) { /*S2*/ }", &[], 1));
    v.push(ResDef {
        name: "dep1.fn".into(),
        aliases: vec![],
        kind: "fn/javascript".into(),
        content: "function dep1() { /*DEP1*/ }".into(),
        deps: vec![],
        perm: 0,
    });
    v.push(mk("tmpl.js", "template", "/*TMPL*/ console.log('{{1}}')", &[], 0));
    v.retain(|r| !(r.name == "tmpl.js" && r.kind == "template" && r.content.starts_with("tmpl(")));
    v
}

/// A line of this form inside a list starts a new source: the lines after it are added with a
/// separate `add_filters` call under the given permission mask (to the parser it is a comment).
pub const SOURCE_MARKER: &str = "!#verif-source perm=";

pub fn build(lines: &[String], debug: bool, optimize: bool, perm: u8) -> Engine {
    let mut fs = FilterSet::new(debug);
    let mut cur = perm;
    let mut chunk: Vec<String> = vec![];
    let mut flush = |fs: &mut FilterSet, chunk: &mut Vec<String>, p: u8| {
        if !chunk.is_empty() {
            fs.add_filters(
                chunk.as_slice(),
                ParseOptions {
                    permissions: PermissionMask::from_bits(p),
                    ..Default::default()
                },
            );
            chunk.clear();
        }
    };
    for l in lines {
        if let Some(p) = l.strip_prefix(SOURCE_MARKER) {
            flush(&mut fs, &mut chunk, cur);
            cur = p.trim().parse().unwrap_or(perm);
        } else {
            chunk.push(l.clone());
        }
    }
    flush(&mut fs, &mut chunk, cur);
    let mut e = Engine::from_filter_set(fs, optimize);
    e.use_resources(scriptlet_resources().iter().map(|r| r.to_resource()));
    e
}

pub fn roundtrip(e: &Engine, target_optimize: bool) -> Result<Engine, String> {
    let buf = e.serialize_raw().map_err(|e| format!("{:?}", e))?;
    let mut e2 = Engine::new(target_optimize);
    e2.deserialize(&buf).map_err(|e| format!("{:?}", e))?;
    e2.use_resources(scriptlet_resources().iter().map(|r| r.to_resource()));
    Ok(e2)
}

#[derive(Clone, PartialEq, Debug)]
pub struct CosAnswer {
    hide: Vec<String>,
    procedural: Vec<String>,
    exceptions: Vec<String>,
    script: String,
    generichide: bool,
    classid: Vec<String>,
}

pub fn cos(e: &Engine, page: &str) -> CosAnswer {
    let r = e.url_cosmetic_resources(page);
    let mut classid = e.hidden_class_id_selectors(["ad", "ad2", "c1", "ad-box", "generic"], ["ban", "x"], &r.exceptions);
    classid.sort();
    let sorted = |s: &std::collections::HashSet<String>| {
        let mut v: Vec<String> = s.iter().cloned().collect();
        v.sort();
        v
    };
    CosAnswer {
        hide: sorted(&r.hide_selectors),
        procedural: sorted(&r.procedural_actions),
        exceptions: sorted(&r.exceptions),
        script: canonical_script(&r.injected_script),
        generichide: r.generichide,
        classid,
    }
}

/// The injected script as a sorted multiset of lines: dependency bodies and invocation blocks come
/// out of hash maps in unspecified order, which the property does not constrain.
pub fn canonical_script(s: &str) -> String {
    let mut lines: Vec<&str> = s.lines().collect();
    lines.sort();
    lines.join("\n")
}

/// Multiset of stored rules by list, as seen through the H4 walker. Only the fields that decide
/// matching are compared (mask, pattern parts, domain lists, modifier, hostname, tag); derived
/// caches (domain unions), the debug text, the id and the bucket token are deliberately left out,
/// so that a loader which recomputes them is not flagged.
pub fn stored_rules(e: &Engine) -> BTreeMap<String, u32> {
    let mut m = BTreeMap::new();
    e.verif_blocker().verif_walk(&mut |list, _token, f| {
        let key = format!(
            "{}|mask={:?}|filter={:?}|domains={:?}|not_domains={:?}|modifier={:?}|hostname={:?}|tag={:?}",
            list,
            f.mask,
            f.filter,
            f.opt_domains,
            f.opt_not_domains,
            f.modifier_option,
            f.hostname,
            f.verif_tag()
        );
        *m.entry(key).or_insert(0) += 1;
    });
    m
}

pub fn run(ctx: &mut Ctx) {
    let sub = "roundtrip";
    let cases = ctx.n(60_000, 4_000_000);
    for idx in 0..cases {
        if ctx.stop() {
            break;
        }
        if !ctx.begin_case(sub, idx) {
            continue;
        }
        let seed = ctx.seed;
        let out = guarded(|| {
            let mut r = Rng::for_case(seed, "c08.rt", idx);
            let mut lines = gen_list(&mut r, &Profile::ALL, 20);
            if r.chance(1, 2) {
                lines.extend(gen::gen_cluster(&mut r, &Profile::ALL));
            }
            let cos_rules = gen_cos_list(&mut r, 10, true);
            lines.extend(cos_rules.iter().map(|c| c.line.clone()));
            r.shuffle(&mut lines);
            let debug = r.chance(1, 2);
            let optimize = r.chance(1, 2);
            let perm: u8 = *r.pick(&[0u8, 0, 1, 3, 255]);
            let mut e = build(&lines, debug, optimize, perm);
            let mut e2 = match roundtrip(&e, r.chance(1, 2)) {
                Ok(x) => x,
                Err(msg) => return (0, false, vec![("C08:own-buffer-rejected".to_string(), json!({"rules": lines, "error": msg}))], json!(null)),
            };
            // defect-aware twins (fresh, not round-tripped)
            let no_rp: Vec<String> = lines.iter().filter(|l| !l.contains("removeparam=")).cloned().collect();
            let mut twin_no_rp = build(&no_rp, debug, optimize, perm);
            let mut twin_defperm = build(&no_rp, debug, optimize, 0);
            let mut viol: Vec<(String, serde_json::Value)> = vec![];
            let mut evals = 0u64;
            let mut nontrivial = false;
            let tagsets: Vec<Vec<&str>> = vec![vec![], TAGS.iter().filter(|_| r.chance(1, 2)).cloned().collect(), TAGS.to_vec()];
            let reqs: Vec<gen::Req> = (0..6).map(|_| gen_request(&mut r, &lines)).collect();
            for tags in &tagsets {
                e.use_tags(tags);
                e2.use_tags(tags);
                twin_no_rp.use_tags(tags);
                twin_defperm.use_tags(tags);
                // field-level: every stored rule survives with all its fields
                let a = stored_rules(&e);
                let b = stored_rules(&e2);
                evals += 1;
                if a != b {
                    let lost: Vec<&String> = a.keys().filter(|k| !b.contains_key(*k)).collect();
                    let gained: Vec<&String> = b.keys().filter(|k| !a.contains_key(*k)).collect();
                    let only_rp = gained.is_empty() && lost.iter().all(|k| k.starts_with("removeparam|"));
                    let sig = if only_rp { "C08:removeparam-rules-not-serialized" } else { "C08:field-level:matching-relevant-field-differs" };
                    viol.push((
                        sig.to_string(),
                        json!({"rules": lines, "tags": tags, "lost_after_round_trip": lost.iter().take(4).collect::<Vec<_>>(),
                            "appeared_after_round_trip": gained.iter().take(4).collect::<Vec<_>>()}),
                    ));
                }
                for q in &reqs {
                    let rq = match Request::new(&q.url, &q.source, q.rtype) {
                        Ok(rq) => rq,
                        Err(_) => continue,
                    };
                    let x: Answer = ask(&e, &rq);
                    let y: Answer = ask(&e2, &rq);
                    evals += 1;
                    if !x.is_default() {
                        nontrivial = true;
                    }
                    if !x.same_verdict(&y) {
                        let t = ask(&twin_no_rp, &rq);
                        let only_rewrite = x.matched == y.matched && x.important == y.important && x.exception == y.exception && x.redirect == y.redirect && x.csp == y.csp;
                        let sig = if only_rewrite && y.same_verdict(&t) && y.rewritten.is_none() {
                            "C08:removeparam-rules-not-serialized".to_string()
                        } else {
                            "C08:network-answer-differs-after-round-trip".to_string()
                        };
                        viol.push((
                            sig,
                            json!({"rules": lines, "tags": tags, "url": q.url, "source": q.source, "type": q.rtype, "debug": debug, "optimize": optimize,
                                "original": x.to_json(), "round_tripped": y.to_json()}),
                        ));
                    }
                }
            }
            // receiver that already has tags enabled when it loads a buffer serialized under a
            // different tag set; nothing is called on it afterwards
            {
                let ser_tags: Vec<&str> = TAGS.iter().filter(|_| r.chance(1, 2)).cloned().collect();
                let recv_tags: Vec<&str> = TAGS.iter().filter(|_| r.chance(1, 2)).cloned().collect();
                e.use_tags(&ser_tags);
                let buf = e.serialize_raw().expect("serialize");
                let mut recv = Engine::new(r.chance(1, 2));
                recv.use_resources(scriptlet_resources().iter().map(|r| r.to_resource()));
                recv.use_tags(&recv_tags);
                recv.deserialize(&buf).expect("deserialize own buffer");
                e.use_tags(&recv_tags);
                twin_no_rp.use_tags(&recv_tags);
                for q in &reqs {
                    let rq = match Request::new(&q.url, &q.source, q.rtype) {
                        Ok(rq) => rq,
                        Err(_) => continue,
                    };
                    let x: Answer = ask(&e, &rq);
                    let y: Answer = ask(&recv, &rq);
                    evals += 1;
                    if !x.same_verdict(&y) {
                        let t = ask(&twin_no_rp, &rq);
                        let only_rewrite = x.matched == y.matched && x.important == y.important && x.exception == y.exception && x.redirect == y.redirect && x.csp == y.csp;
                        let sig = if only_rewrite && y.same_verdict(&t) && y.rewritten.is_none() {
                            "C08:removeparam-rules-not-serialized".to_string()
                        } else {
                            "C08:receiver-with-own-tags-answers-differently".to_string()
                        };
                        viol.push((
                            sig,
                            json!({"rules": lines, "tags_when_serialized": ser_tags, "tags_enabled_on_receiver_before_load": recv_tags, "url": q.url, "source": q.source, "type": q.rtype,
                                "original_under_receiver_tags": x.to_json(), "receiver": y.to_json()}),
                        ));
                    }
                }
                for t in TAGS {
                    if recv.tag_exists(t) != recv_tags.contains(t) {
                        viol.push(("C08:receiver-tag-set-changed-by-load".to_string(), json!({"rules": lines, "tag": t})));
                    }
                }
            }
            for _ in 0..5 {
                let page = format!("https://{}/p", r.pick(PAGES).0);
                let x = cos(&e, &page);
                let y = cos(&e2, &page);
                evals += 1;
                if !x.hide.is_empty() || !x.procedural.is_empty() || !x.script.is_empty() || !x.exceptions.is_empty() {
                    nontrivial = true;
                }
                if x != y {
                    let t = cos(&twin_defperm, &page);
                    let only_script = x.hide == y.hide && x.procedural == y.procedural && x.exceptions == y.exceptions && x.generichide == y.generichide && x.classid == y.classid;
                    let sig = if only_script && perm != 0 && y == t {
                        "C08:scriptlet-permission-mask-not-serialized".to_string()
                    } else {
                        "C08:cosmetic-answer-differs-after-round-trip".to_string()
                    };
                    viol.push((
                        sig,
                        json!({"rules": lines, "page": page, "list_permission_bits": perm, "original": format!("{:?}", x), "round_tripped": format!("{:?}", y)}),
                    ));
                }
            }
            (evals, nontrivial, viol, json!({"rules": lines, "debug": debug, "optimize": optimize, "list_permission_bits": perm}))
        });
        match out {
            Err(sig) => ctx.violation(sub, idx, &format!("C08:{}", sig), json!({})),
            Ok((evals, nt, viol, sample)) => {
                ctx.evals(evals);
                if nt {
                    ctx.nontrivial(fnv(&sample.to_string()));
                    ctx.sample(|| sample);
                }
                for (sig, d) in viol {
                    ctx.violation(sub, idx, &sig, d);
                }
            }
        }
    }
    if !ctx.quick() || ctx.extra.contains_key("corpus") {
        corpus(ctx);
    }
}

/// Thorough: the corpus engine round trip over the recorded requests.
fn corpus(ctx: &mut Ctx) {
    let sub = "corpus";
    let mut rules: Vec<String> = vec![];
    for p in [
        "/repo/data/easylist.to/easylist/easylist.txt",
        "/repo/data/easylist.to/easylist/easyprivacy.txt",
        "/repo/data/uBlockOrigin/filters.txt",
        "/repo/data/uBlockOrigin/unbreak.txt",
    ] {
        if let Ok(s) = std::fs::read_to_string(p) {
            rules.extend(s.lines().map(|l| l.to_string()));
        }
    }
    let reqs: Vec<(String, String, String)> = std::fs::read_to_string("/repo/data/matching-test-requests.json")
        .ok()
        .and_then(|s| serde_json::from_str::<serde_json::Value>(&s).ok())
        .and_then(|v| v.as_array().cloned())
        .map(|a| {
            a.iter()
                .filter_map(|o| Some((o.get("url")?.as_str()?.to_string(), o.get("sourceUrl")?.as_str()?.to_string(), o.get("type")?.as_str()?.to_string())))
                .collect()
        })
        .unwrap_or_default();
    if rules.is_empty() || reqs.is_empty() {
        ctx.note("corpus unavailable; skipped".into());
        return;
    }
    let built = guarded(|| {
        let e = build(&rules, false, true, 0);
        let e2 = roundtrip(&e, true);
        (e, e2)
    });
    let (e, e2) = match built {
        Ok((e, Ok(e2))) => (e, e2),
        Ok((_, Err(m))) => {
            ctx.violation(sub, 0, "C08:own-buffer-rejected", json!({"error": m, "list": "corpus"}));
            return;
        }
        Err(sig) => {
            ctx.violation(sub, 0, &format!("C08:{}", sig), json!({}));
            return;
        }
    };
    for (i, (url, src, ty)) in reqs.iter().enumerate() {
        let idx = i as u64;
        if ctx.stop() {
            break;
        }
        if !ctx.begin_case(sub, idx) {
            continue;
        }
        let r = guarded(|| {
            let rq = Request::new(url, src, ty).ok()?;
            let page = cos(&e, url) == cos(&e2, url);
            Some((ask(&e, &rq), ask(&e2, &rq), page))
        });
        match r {
            Err(sig) => ctx.violation(sub, idx, &format!("C08:{}", sig), json!({"url": url})),
            Ok(None) => {}
            Ok(Some((a, b, page_same))) => {
                ctx.evals(2);
                ctx.obs("corpus_evals", 2);
                if !a.is_default() {
                    ctx.nontrivial(fnv(&format!("corpus|{}|{}|{}", url, src, ty)));
                }
                if !a.same_verdict(&b) {
                    let only_rewrite = a.matched == b.matched && a.redirect == b.redirect && a.csp == b.csp && b.rewritten.is_none();
                    ctx.violation(
                        sub,
                        idx,
                        if only_rewrite { "C08:removeparam-rules-not-serialized" } else { "C08:network-answer-differs-after-round-trip" },
                        json!({"url": url, "source": src, "type": ty, "original": a.to_json(), "round_tripped": b.to_json()}),
                    );
                }
                if !page_same {
                    ctx.violation(sub, idx, "C08:cosmetic-answer-differs-after-round-trip", json!({"page": url, "list": "corpus"}));
                }
            }
        }
    }
}
