//! C11 — list parsing is total, line-independent, and format / rule-type options hold.
//!
//! (total)   parse_filter (both formats, all rule types, random permission masks),
//!           FilterSet::add_filter_list, read_list_metadata, parse_hosts_style under catch_unwind,
//!           on grammar-aware mutations of real and synthetic rules (multi-byte insertions at EVERY
//!           byte offset, deletions/duplications of special characters, truncations at every
//!           offset), lossy-UTF-8 random bytes, metadata blocks straddling byte 1024
//! (indep)   Engine(L) == Engine(L minus rejected lines): serialized bytes and battery
//! (hosts)   a hosts-format entry == the standard rule `||host^`
//! (types)   NetworkOnly / CosmeticOnly load no rule of the other kind

use crate::gen::{self, gen_request, gen_rule, Profile};
use crate::gen_cos::{gen_cos_rule, SELS};
use crate::mon::common::ask;
use crate::report::{guarded, Ctx};
use crate::rng::{fnv, Rng};
use adblock::filters::network::NetworkFilter;
use adblock::lists::{parse_filter, read_list_metadata, FilterFormat, FilterSet, ParseOptions, ParsedFilter, RuleTypes};
use adblock::request::Request;
use adblock::resources::PermissionMask;
use adblock::Engine;
use serde_json::json;

const MULTI: &[&str] = &["é", "€", "😀", "\u{200d}", "İ", "ß", "K", "\u{feff}", "ǅ"];
const SPECIAL: &[char] = &['$', '#', '@', '|', '^', '*', ',', '~', '=', '(', ')', '+', '\\', '/', ':', '%', '[', ']', '!', '"', '\''];

const SYNTH: &[&str] = &[
    "||ads.example.com^$script,third-party,domain=a.com|~b.com",
    "@@||example.org/path/*.js$xhr,~image,important",
    "|https://x.y/z|$match-case",
    "/banner\\d+\\.(gif|png)/$image,match-case",
    "example.com,~sub.example.com##.ad > div:not(.x)",
    "example.*#@#.ad",
    "a.com##+js(set-constant, a.b, 'tr,ue', \"x\\\"y\")",
    "b.com##.x:style(color: red !important)",
    "c.com##.x:remove-attr(data-y)",
    "##.generic[href^=\"http://\"]",
    "||redirect.example^$redirect=noop.js:10,script",
    "*$removeparam=utm_source,document",
    "||csp.example^$csp=script-src 'self' *.a.com; img-src data:",
    "@@||gh.example^$generichide",
    "ad$badfilter,tag=x",
    "127.0.0.1 hosts.example.com # comment",
    "0.0.0.0\twww.hosts.example.com",
    "! Title: Some list",
    "[Adblock Plus 2.0]",
    "d.com#?#.x:has-text(ad)",
    "e.com#$#.x { display: none }",
    "$$script[data-x]",
    "bücher.example##.ü",
    "##.ad\\:box",
    "###\\31 23",
    "##.a\\é",
    "~example.org##.x\\€ > .y",
    "||bücher.example^$domain=münchen.example",
];

fn corpus_lines(limit: usize) -> Vec<String> {
    let mut v = vec![];
    for p in [
        "/repo/data/easylist.to/easylist/easylist.txt",
        "/repo/data/uBlockOrigin/filters.txt",
        "/repo/data/uBlockOrigin/unbreak.txt",
        "/repo/data/test/malwaredomainlist_justhosts.txt",
    ] {
        if let Ok(s) = std::fs::read_to_string(p) {
            let lines: Vec<&str> = s.lines().collect();
            let step = (lines.len() / (limit / 4).max(1)).max(1);
            v.extend(lines.iter().step_by(step).map(|l| l.to_string()));
        }
    }
    v
}

fn opts_matrix() -> Vec<ParseOptions> {
    let mut v = vec![];
    for format in [FilterFormat::Standard, FilterFormat::Hosts] {
        for rule_types in [RuleTypes::All, RuleTypes::NetworkOnly, RuleTypes::CosmeticOnly] {
            v.push(ParseOptions {
                format,
                rule_types,
                permissions: PermissionMask::from_bits(0),
            });
        }
    }
    v
}

/// Parse one string with every option combination and the auxiliary entry points. Returns the
/// number of calls and, if a rule-type option let a rule of the other kind through, a description.
fn exercise(s: &str, perm: u8) -> (u64, Option<String>) {
    let mut n = 0;
    let mut leak: Option<String> = None;
    let empty = Engine::from_filter_set(FilterSet::new(false), false).serialize_raw().ok();
    for mut o in opts_matrix() {
        o.permissions = PermissionMask::from_bits(perm);
        let a = parse_filter(s, true, o);
        let _ = parse_filter(s, false, o);
        n += 2;
        let kind = match &a {
            Ok(ParsedFilter::Network(_)) => Some("network"),
            Ok(ParsedFilter::Cosmetic(_)) => Some("cosmetic"),
            Err(_) => None,
        };
        let forbidden = match o.rule_types {
            RuleTypes::NetworkOnly => Some("cosmetic"),
            RuleTypes::CosmeticOnly => Some("network"),
            RuleTypes::All => None,
        };
        if kind.is_some() && kind == forbidden {
            leak = Some(format!("parse_filter with format {:?} and rule types {:?} returned a {} rule", o.format, o.rule_types, kind.unwrap()));
        }
        // the same through FilterSet::add_filter / add_filters: nothing of the other kind may be loaded
        if forbidden.is_some() {
            let mut fs = FilterSet::new(false);
            let _ = fs.add_filter(s, o);
            let mut fs2 = FilterSet::new(false);
            fs2.add_filters([s], o);
            n += 2;
            // a set restricted to one kind, fed a single line: if the line is of the other kind the
            // engine must be empty
            let other_kind = match parse_filter(s, false, ParseOptions { rule_types: RuleTypes::All, ..o }) {
                Ok(ParsedFilter::Network(_)) => Some("network"),
                Ok(ParsedFilter::Cosmetic(_)) => Some("cosmetic"),
                Err(_) => None,
            };
            if other_kind.is_some() && other_kind == forbidden {
                for (name, set) in [("add_filter", fs), ("add_filters", fs2)] {
                    if Engine::from_filter_set(set, false).serialize_raw().ok() != empty {
                        leak = Some(format!("FilterSet::{} with format {:?} and rule types {:?} loaded a {} rule", name, o.format, o.rule_types, forbidden.unwrap()));
                    }
                }
            }
        }
    }
    // loading the line into an engine and asking it something is part of "the list loads"
    {
        let mut fs = FilterSet::new(false);
        fs.add_filters([s], ParseOptions::default());
        let e = Engine::from_filter_set(fs, true);
        let r = e.url_cosmetic_resources("https://example.com/");
        let _ = e.hidden_class_id_selectors(["ad", "a"], ["ban"], &r.exceptions);
        if let Ok(rq) = Request::new("https://ads.example.com/banner/ad.js?x=1", "https://example.com/", "script") {
            let _ = e.check_network_request(&rq);
        }
        n += 1;
    }
    let _ = NetworkFilter::parse_hosts_style(s, true);
    let _ = read_list_metadata(s);
    let mut fs = FilterSet::new(true);
    let _ = fs.add_filter_list(s, ParseOptions::default());
    let _ = fs.add_filter(s, ParseOptions::default());
    (n + 4, leak)
}

fn mutants_of(line: &str, r: &mut Rng, every_offset: bool) -> Vec<String> {
    let mut out = vec![];
    let offsets: Vec<usize> = (0..=line.len()).filter(|i| line.is_char_boundary(*i)).collect();
    if every_offset {
        let m = r.ps(MULTI);
        for &i in &offsets {
            let mut s = line.to_string();
            s.insert_str(i, m);
            out.push(s);
        }
        // truncation at every offset
        for &i in &offsets {
            out.push(line[..i].to_string());
        }
    }
    // delete / duplicate each special character
    for (i, c) in line.char_indices() {
        if SPECIAL.contains(&c) {
            let mut s = line.to_string();
            s.remove(i);
            out.push(s);
            let mut d = line.to_string();
            d.insert(i, c);
            out.push(d);
        }
    }
    // swap option values / insert specials at random places
    for _ in 0..4 {
        let mut s = line.to_string();
        let at = *r.pick(&offsets);
        s.insert(at, *r.pick(SPECIAL));
        out.push(s);
    }
    out
}

pub fn run(ctx: &mut Ctx) {
    totality(ctx);
    metadata(ctx);
    if ctx.extra.get("only").map(|s| s.as_str()) == Some("total") {
        return;
    }
    independence(ctx);
    hosts_equivalence(ctx);
    rule_types(ctx);
}

fn totality(ctx: &mut Ctx) {
    let sub = "total";
    let mut seeds: Vec<String> = SYNTH.iter().map(|s| s.to_string()).collect();
    seeds.extend(corpus_lines(ctx.n(8_000, 150_000) as usize));
    let n = seeds.len() as u64;
    ctx.obs_max("max_seed_rules", n as i64);
    for idx in 0..n {
        if ctx.stop() {
            break;
        }
        if !ctx.begin_case(sub, idx) {
            continue;
        }
        let line = seeds[idx as usize].clone();
        let seed = ctx.seed;
        let mut r = Rng::for_case(seed, "c11.total", idx);
        let ms = mutants_of(&line, &mut r, true);
        let perm = r.next() as u8;
        let mut reached = 0;
        for m in ms.iter().chain(std::iter::once(&line)) {
            match guarded(|| exercise(m, perm)) {
                Ok((k, leak)) => {
                    ctx.evals(k);
                    if let Some(what) = leak {
                        ctx.violation(sub, idx, "C11:rule-type-option-lets-other-kind-through", json!({"input": m, "what": what}));
                    }
                    // non-trivial: the input reaches a specific parser (not a comment / empty line)
                    let t = m.trim();
                    if !t.is_empty() && !t.starts_with('!') && t.len() > 1 {
                        reached += 1;
                    }
                }
                Err(sig) => ctx.violation(sub, idx, &format!("C11:{}", sig), json!({"input": m, "seed_rule": line, "permission_bits": perm})),
            }
        }
        if reached > 0 {
            ctx.nontrivial(fnv(&line));
            ctx.obs("mutants_reaching_a_parser", reached);
        }
        if idx % 211 == 0 {
            ctx.sample_tagged("total", || json!({"seed_rule": line, "mutants": ms.iter().take(3).collect::<Vec<_>>(), "mutant_count": ms.len()}));
        }
    }
    // lossy-UTF-8 random bytes
    let cases = ctx.n(200_000, 4_000_000);
    for idx in 0..cases {
        if ctx.stop() {
            break;
        }
        if !ctx.begin_case("bytes", idx) {
            continue;
        }
        let mut r = Rng::for_case(ctx.seed, "c11.bytes", idx);
        let len = r.below(80);
        let bytes: Vec<u8> = (0..len)
            .map(|_| match r.below(4) {
                0 => *r.pick(b"$#@|^*,~=()+\\/:%[]! \t"),
                1 => r.next() as u8,
                _ => *r.pick(b"abcdefghijklmnopqrstuvwxyz0123456789.-_"),
            })
            .collect();
        let s = String::from_utf8_lossy(&bytes).to_string();
        match guarded(|| exercise(&s, 0)) {
            Ok((k, leak)) => {
                ctx.evals(k);
                if let Some(what) = leak {
                    ctx.violation("bytes", idx, "C11:rule-type-option-lets-other-kind-through", json!({"input": s, "what": what}));
                }
            }
            Err(sig) => ctx.violation("bytes", idx, &format!("C11:{}", sig), json!({"input": s})),
        }
    }
}

/// Metadata blocks with a multi-byte character straddling byte 1024 at every alignment.
fn metadata(ctx: &mut Ctx) {
    let sub = "metadata";
    let mut idx = 0u64;
    for ch in MULTI {
        for pad in 1000..1030usize {
            idx += 1;
            if !ctx.begin_case(sub, idx) {
                continue;
            }
            let mut s = String::from("! Title: T\n! Expires: 4 days\n! Homepage: https://x.example/\n");
            while s.len() < pad {
                s.push_str("! ");
                s.push_str(&"x".repeat((pad - s.len()).min(60).saturating_sub(3)));
                s.push('\n');
                if pad - s.len() < 4 {
                    s.push_str(&"!".repeat(pad - s.len()));
                }
            }
            s.push_str(ch);
            s.push_str("\n! Redirect: https://y.example/\n||ads.example^\n");
            match guarded(|| {
                let m = read_list_metadata(&s);
                let mut fs = FilterSet::new(false);
                let m2 = fs.add_filter_list(&s, ParseOptions::default());
                (m.title, m2.title)
            }) {
                Ok((t1, t2)) => {
                    ctx.evals(2);
                    ctx.nontrivial(fnv(&format!("{}{}", ch, pad)));
                    if t1.as_deref() != Some("T") || t2.as_deref() != Some("T") {
                        ctx.violation(sub, idx, "C11:metadata-title-lost", json!({"pad": pad, "char": ch, "title": t1, "title_from_add_filter_list": t2}));
                    }
                }
                Err(sig) => ctx.violation(sub, idx, &format!("C11:{}", sig), json!({"pad": pad, "char": ch})),
            }
        }
    }
    // Expires parsing edge cases never panic
    for (i, v) in ["", " ", "1", "1 ", " 1 day", "99999999999 days", "-1 days", "+1 days", "1 days ", "1\u{a0}days", "½ day", "1 hours", "336 hours", "337 hours", "15 days", "0 days"].iter().enumerate() {
        let idx = 10_000 + i as u64;
        if !ctx.begin_case(sub, idx) {
            continue;
        }
        let s = format!("! Expires: {}\n", v);
        match guarded(|| read_list_metadata(&s)) {
            Ok(_) => ctx.eval(),
            Err(sig) => ctx.violation(sub, idx, &format!("C11:{}", sig), json!({"input": s})),
        }
    }
    // amounts at every integer-width boundary x units: never a panic (also not inside a list
    // load), and an accepted interval is the amount that was written, within 14 days
    let amounts: [u128; 22] = [0, 1, 2, 13, 14, 15, 127, 128, 255, 256, 336, 337, 2730, 2731, 5461, 65535, 65536, 4294967295, 4294967296, 18446744073709551615, 18446744073709551616, 340282366920938463463374607431768211455];
    let mut k = 0u64;
    for a in amounts {
        for unit in ["day", "days", "hour", "hours", "days (update frequency)", "Days", "weeks"] {
            k += 1;
            let idx = 20_000 + k;
            if !ctx.begin_case(sub, idx) {
                continue;
            }
            let s = format!("! Title: t\n! Expires: {} {}\n||ads.example^\n", a, unit);
            let r = guarded(|| {
                let m = read_list_metadata(&s);
                let mut fs = FilterSet::new(true);
                let m2 = fs.add_filter_list(&s, ParseOptions::default());
                (format!("{:?}", m.expires), format!("{:?}", m2.expires))
            });
            match r {
                Err(sig) => ctx.violation(sub, idx, &format!("C11:{}", sig), json!({"input": s})),
                Ok((e1, e2)) => {
                    ctx.eval();
                    let digits: String = e1.chars().filter(|c| c.is_ascii_digit()).collect();
                    let ok = if e1 == "None" {
                        true
                    } else {
                        let n: u128 = digits.parse().unwrap_or(u128::MAX);
                        n == a && ((e1.contains("Days") && (1..=14).contains(&n)) || (e1.contains("Hours") && (1..=336).contains(&n)))
                    };
                    if e1 != "None" {
                        ctx.nontrivial(fnv(&s));
                    }
                    if !ok || e1 != e2 {
                        ctx.violation(sub, idx, "C11:expires-interval-is-not-the-amount-written", json!({"input": s, "read_list_metadata": e1, "add_filter_list": e2}));
                    }
                }
            }
        }
    }
}

const JUNK: &[&str] = &[
    "",
    "!comment",
    "[Adblock Plus 2.0]",
    "||x^$unknownoption",
    "||x^$~important",
    "a.com##",
    "##",
    "$$",
    "x$removeparam=/re/",
    "@@x$removeparam=a",
    "x$generichide",
    "x$csp=a,script",
    "x$redirect=a,csp=b",
    "##+js(a)",
    "#@#.generic-unhide",
    "a.com#@#~b.com##x",
    "~a.com#@#.x",
    "x$match-case",
    "||bücher\u{200d}.example^$domain=\u{200d}",
    "/[/$script",
    "a.com#%#alert(1)",
    "a.com#$#body { }",
    "example.com,\u{ad}##.junk-banner",
    "a.com,sub.ads.net,\u{200d}##.junk2",
    "~example.com,\u{ad}#@#.junk3",
    "[zoneid]=",
    "[ad-slot]",
    "[Adblock",
    "[x",
    "!",
    "!##.x",
    "! Title: t",
    "x$domain=/re/",
    "\u{feff}",
    "a",
    "||a^$redirect=",
    "||a^$tag",
    "# comment with space",
    "a.com##^script",
];

fn engine_from(lines: &[String], opts: ParseOptions, debug: bool, optimize: bool) -> Engine {
    let mut fs = FilterSet::new(debug);
    fs.add_filters(lines, opts);
    Engine::from_filter_set(fs, optimize)
}

fn battery(e: &Engine, reqs: &[gen::Req]) -> String {
    let mut s = String::new();
    for q in reqs {
        if let Ok(rq) = Request::new(&q.url, &q.source, q.rtype) {
            s.push_str(&ask(e, &rq).digest());
            s.push('\n');
        }
    }
    for page in ["https://example.com/", "https://sub.ads.net/", "https://a.com/x"] {
        let r = e.url_cosmetic_resources(page);
        let mut h: Vec<&String> = r.hide_selectors.iter().collect();
        h.sort();
        let mut x: Vec<&String> = r.exceptions.iter().collect();
        x.sort();
        let mut p: Vec<&String> = r.procedural_actions.iter().collect();
        p.sort();
        s.push_str(&format!("{:?}{:?}{:?}{}\n", h, x, p, r.generichide));
    }
    s
}

fn independence(ctx: &mut Ctx) {
    let sub = "indep";
    let cases = ctx.n(80_000, 1_500_000);
    for idx in 0..cases {
        if ctx.stop() {
            break;
        }
        if !ctx.begin_case(sub, idx) {
            continue;
        }
        let seed = ctx.seed;
        let out = guarded(|| {
            let mut r = Rng::for_case(seed, "c11.indep", idx);
            let mut lines: Vec<String> = vec![];
            for _ in 0..2 + r.below(12) {
                lines.push(match r.below(5) {
                    0 => gen_cos_rule(&mut r, SELS, false).line,
                    1 => r.ps(JUNK).to_string(),
                    2 => {
                        let base = gen_rule(&mut r, &Profile::ALL);
                        let ms = mutants_of(&base, &mut r, false);
                        if ms.is_empty() { base } else { r.pick(&ms).clone() }
                    }
                    _ => gen_rule(&mut r, &Profile::ALL),
                });
            }
            let opts = ParseOptions::default();
            let debug = r.chance(1, 2);
            let optimize = r.chance(1, 2);
            let accepted: Vec<String> = lines.iter().filter(|l| parse_filter(l, debug, opts).is_ok()).cloned().collect();
            let rejected = lines.len() - accepted.len();
            let e1 = engine_from(&lines, opts, debug, optimize);
            let e2 = engine_from(&accepted, opts, debug, optimize);
            // third reading: every line on its own through the single-rule entry point
            let mut fs = FilterSet::new(debug);
            for l in &lines {
                let _ = fs.add_filter(l, opts);
            }
            let e3 = Engine::from_filter_set(fs, optimize);
            // fourth reading: the list as one text with mixed line terminators
            let mut text = String::new();
            for (i, l) in lines.iter().enumerate() {
                text.push_str(l);
                text.push_str(if l.contains('\r') || l.contains('\n') { "\n" } else { ["\r\n", "\n", "\n", "\r\n", "\n"][(i + lines.len()) % 5] });
            }
            let mut fs4 = FilterSet::new(debug);
            fs4.add_filter_list(&text, opts);
            let e4 = Engine::from_filter_set(fs4, optimize);
            let mut reqs: Vec<gen::Req> = (0..5).map(|_| gen_request(&mut r, &accepted)).collect();
            reqs.push(gen::Req { url: "https://cdn.example/serve?params[zoneid]=5&[ad-slot]".into(), source: "https://example.com/".into(), rtype: "script" });
            let b1 = battery(&e1, &reqs);
            let bytes1 = e1.serialize_raw().ok();
            let text_ok = lines.iter().all(|l| !l.contains('\r') && !l.contains('\n'));
            let same_bytes = bytes1 == e2.serialize_raw().ok() && bytes1 == e3.serialize_raw().ok() && (!text_ok || bytes1 == e4.serialize_raw().ok());
            let same_battery = b1 == battery(&e2, &reqs) && b1 == battery(&e3, &reqs) && (!text_ok || b1 == battery(&e4, &reqs));
            (lines, accepted, rejected, same_bytes, same_battery)
        });
        match out {
            Err(sig) => ctx.violation(sub, idx, &format!("C11:{}", sig), json!({})),
            Ok((lines, accepted, rejected, same_bytes, same_battery)) => {
                ctx.evals(2);
                if rejected >= 1 && !accepted.is_empty() {
                    ctx.nontrivial(fnv(&format!("{:?}", lines)));
                    ctx.sample_tagged("indep", || json!({"list": lines, "accepted": accepted.len(), "rejected": rejected}));
                }
                if !same_bytes || !same_battery {
                    ctx.violation(
                        sub,
                        idx,
                        if !same_battery { "C11:rejected-line-influences-answers" } else { "C11:rejected-line-influences-serialized-engine" },
                        json!({"list": lines, "list_minus_rejected_lines": accepted, "bytes_equal": same_bytes, "battery_equal": same_battery}),
                    );
                }
            }
        }
    }
}

const HOST_ENTRIES: &[(&str, &str)] = &[
    ("127.0.0.1 ads.example.com", "ads.example.com"),
    ("0.0.0.0\tTrack.Example.COM", "track.example.com"),
    ("www.sub.example.org", "sub.example.org"),
    ("::1 bücher.example", "xn--bcher-kva.example"),
    ("0.0.0.0 a.b.co.uk # trailing comment", "a.b.co.uk"),
    ("  127.0.0.1   spaced.example.net  ", "spaced.example.net"),
    ("www.www.example.io", "example.io"),
    ("0.0.0.0 MÜNCHEN.example", "xn--mnchen-3ya.example"),
    (".dot.example.com", ".dot.example.com"),
    ("127.0.0.1 ..two.example.net", "..two.example.net"),
    ("www..x.example.org", ".x.example.org"),
];

fn hosts_equivalence(ctx: &mut Ctx) {
    let sub = "hosts";
    let cases = ctx.n(30_000, 400_000);
    let hosts_opts = ParseOptions {
        format: FilterFormat::Hosts,
        ..Default::default()
    };
    for idx in 0..cases {
        if ctx.stop() {
            break;
        }
        if !ctx.begin_case(sub, idx) {
            continue;
        }
        let seed = ctx.seed;
        let out = guarded(|| {
            let mut r = Rng::for_case(seed, "c11.hosts", idx);
            let n = 1 + r.below(5);
            let picks: Vec<(&str, &str)> = (0..n).map(|_| *r.pick(HOST_ENTRIES)).collect();
            let mut hosts_lines: Vec<String> = picks.iter().map(|p| p.0.to_string()).collect();
            let std_lines: Vec<String> = picks.iter().map(|p| format!("||{}^", p.1)).collect();
            // comments and junk in the hosts file must not matter
            if r.chance(1, 2) {
                hosts_lines.insert(r.below(hosts_lines.len() + 1), r.ps(&["# comment", "! comment", "", "127.0.0.1 localhost", "1.2.3.4 a b c", "nodots"]).to_string());
            }
            let debug = r.chance(1, 2);
            let optimize = r.chance(1, 2);
            let e1 = engine_from(&hosts_lines, hosts_opts, debug, optimize);
            let e2 = engine_from(&std_lines, ParseOptions::default(), debug, optimize);
            let mut reqs = vec![];
            for p in &picks {
                for (pre, ty) in [("", "script"), ("sub.", "image"), ("x", "document")] {
                    reqs.push(gen::Req {
                        url: format!("https://{}{}/path", pre, p.1),
                        source: "https://other.org/".into(),
                        rtype: ty,
                    });
                }
            }
            let same_bytes = e1.serialize_raw().ok() == e2.serialize_raw().ok();
            let b1 = battery(&e1, &reqs);
            let blocks = b1.contains("100|") || b1.starts_with('1');
            (hosts_lines, std_lines, same_bytes, b1 == battery(&e2, &reqs), blocks)
        });
        match out {
            Err(sig) => ctx.violation(sub, idx, &format!("C11:{}", sig), json!({})),
            Ok((h, s, same_bytes, same_battery, blocks)) => {
                ctx.evals(2);
                if blocks {
                    ctx.nontrivial(fnv(&format!("{:?}", h)));
                }
                if !same_bytes || !same_battery {
                    ctx.violation(
                        sub,
                        idx,
                        "C11:hosts-entry-differs-from-standard-rule",
                        json!({"hosts_lines": h, "standard_rules": s, "bytes_equal": same_bytes, "battery_equal": same_battery}),
                    );
                }
            }
        }
    }
}

fn rule_types(ctx: &mut Ctx) {
    let sub = "types";
    let cases = ctx.n(40_000, 600_000);
    for idx in 0..cases {
        if ctx.stop() {
            break;
        }
        if !ctx.begin_case(sub, idx) {
            continue;
        }
        let seed = ctx.seed;
        let out = guarded(|| {
            let mut r = Rng::for_case(seed, "c11.types", idx);
            let mut lines: Vec<String> = vec![];
            for _ in 0..2 + r.below(12) {
                lines.push(match r.below(4) {
                    0 => gen_cos_rule(&mut r, SELS, true).line,
                    1 => r.ps(JUNK).to_string(),
                    _ => gen_rule(&mut r, &Profile::ALL),
                });
            }
            let all = ParseOptions::default();
            let net: Vec<String> = lines.iter().filter(|l| matches!(parse_filter(l, true, all), Ok(ParsedFilter::Network(_)))).cloned().collect();
            let cos: Vec<String> = lines.iter().filter(|l| matches!(parse_filter(l, true, all), Ok(ParsedFilter::Cosmetic(_)))).cloned().collect();
            let debug = r.chance(1, 2);
            let optimize = r.chance(1, 2);
            let e_net_only = engine_from(&lines, ParseOptions { rule_types: RuleTypes::NetworkOnly, ..all }, debug, optimize);
            let e_net = engine_from(&net, all, debug, optimize);
            let e_cos_only = engine_from(&lines, ParseOptions { rule_types: RuleTypes::CosmeticOnly, ..all }, debug, optimize);
            let e_cos = engine_from(&cos, all, debug, optimize);
            let a = e_net_only.serialize_raw().ok() == e_net.serialize_raw().ok();
            let b = e_cos_only.serialize_raw().ok() == e_cos.serialize_raw().ok();
            (lines, net.len(), cos.len(), a, b)
        });
        match out {
            Err(sig) => ctx.violation(sub, idx, &format!("C11:{}", sig), json!({})),
            Ok((lines, n_net, n_cos, a, b)) => {
                ctx.evals(2);
                if n_net > 0 && n_cos > 0 {
                    ctx.nontrivial(fnv(&format!("T{:?}", lines)));
                }
                if !a {
                    ctx.violation(sub, idx, "C11:network-only-differs-from-network-lines", json!({"list": lines}));
                }
                if !b {
                    ctx.violation(sub, idx, "C11:cosmetic-only-differs-from-cosmetic-lines", json!({"list": lines}));
                }
            }
        }
    }
}
