//! Shard context, report and verdict plumbing shared by all monitors.

use serde_json::{json, Value};
use std::cell::RefCell;
use std::collections::{BTreeMap, HashSet};
use std::panic::{catch_unwind, AssertUnwindSafe};
use std::time::Instant;

#[derive(Clone, Copy, PartialEq, Eq, Debug)]
pub enum Tier {
    Quick,
    Thorough,
}

pub struct Ctx {
    pub property: String,
    pub tier: Tier,
    pub seed: u64,
    pub shard: usize,
    pub nshards: usize,
    pub budget_s: f64,
    pub only_case: Option<(String, u64)>,
    pub out: Option<String>,
    pub extra: BTreeMap<String, String>,
    pub skip: Vec<(String, u64)>,
    pub journal: Option<std::fs::File>,
    pub start: Instant,
    pub report: Report,
}

#[derive(Default)]
pub struct Report {
    pub evaluations: u64,
    pub nontrivial: HashSet<u64>,
    pub nt_overflow: u64,
    pub samples: Vec<Value>,
    pub violations: Vec<Value>,
    pub violation_counts: BTreeMap<String, u64>,
    pub obs: BTreeMap<String, i64>,
    pub notes: Vec<String>,
    pub cases_run: u64,
    pub budget_exhausted: bool,
    pub exhaustive: Vec<String>,
}

const NT_CAP: usize = 400_000;
const SAMPLE_CAP: usize = 6;
const VIOL_PER_SIG: u64 = 3;
const VIOL_CAP: usize = 60;

impl Ctx {
    pub fn quick(&self) -> bool {
        self.tier == Tier::Quick
    }

    /// Scale a count by tier.
    pub fn n(&self, quick: u64, thorough: u64) -> u64 {
        let base = if self.quick() { quick } else { thorough };
        match self.extra.get("scale").and_then(|s| s.parse::<f64>().ok()) {
            Some(f) => ((base as f64) * f).ceil() as u64,
            None => base,
        }
    }

    pub fn out_of_budget(&mut self) -> bool {
        if self.start.elapsed().as_secs_f64() > self.budget_s {
            self.report.budget_exhausted = true;
            true
        } else {
            false
        }
    }

    /// Does this shard own case `idx` of sub-monitor `sub`? Honors `--only-case sub:idx`.
    pub fn owns(&self, sub: &str, idx: u64) -> bool {
        match &self.only_case {
            Some((s, k)) => s == sub && *k == idx,
            None => (idx % self.nshards as u64) as usize == self.shard,
        }
    }

    /// Gate for one case: ownership (shard / --only-case / --skip), wall-clock budget, journal
    /// line (so that the driver knows which case was running if the process dies), case count.
    pub fn begin_case(&mut self, sub: &str, idx: u64) -> bool {
        if !self.owns(sub, idx) {
            return false;
        }
        if self.skip.iter().any(|(s, k)| s == sub && *k == idx) {
            return false;
        }
        if self.out_of_budget() {
            return false;
        }
        if let Some(j) = self.journal.as_mut() {
            use std::io::Write;
            let _ = writeln!(j, "{} {}", sub, idx);
        }
        self.report.cases_run += 1;
        true
    }

    /// True once the budget is exhausted (lets case loops stop early instead of spinning).
    pub fn stop(&self) -> bool {
        self.report.budget_exhausted
    }

    pub fn eval(&mut self) {
        self.report.evaluations += 1;
    }

    pub fn evals(&mut self, n: u64) {
        self.report.evaluations += n;
    }

    pub fn nontrivial(&mut self, hash: u64) {
        if self.report.nontrivial.len() < NT_CAP {
            self.report.nontrivial.insert(hash);
        } else {
            self.report.nt_overflow += 1;
        }
    }

    pub fn obs(&mut self, key: &str, delta: i64) {
        *self.report.obs.entry(key.to_string()).or_insert(0) += delta;
    }

    pub fn obs_max(&mut self, key: &str, v: i64) {
        let e = self.report.obs.entry(key.to_string()).or_insert(v);
        if v > *e {
            *e = v;
        }
    }

    pub fn sample(&mut self, v: impl FnOnce() -> Value) {
        if self.report.samples.len() < SAMPLE_CAP {
            self.report.samples.push(v());
        }
    }

    pub fn sample_tagged(&mut self, tag: &str, v: impl FnOnce() -> Value) {
        let have = self
            .report
            .samples
            .iter()
            .filter(|s| s.get("kind").and_then(|k| k.as_str()) == Some(tag))
            .count();
        if have < 2 && self.report.samples.len() < 16 {
            let mut val = v();
            if let Some(o) = val.as_object_mut() {
                o.insert("kind".into(), json!(tag));
            }
            self.report.samples.push(val);
        }
    }

    /// Record a violation. `signature` is the stable classifier string that known_findings.json
    /// is matched against; `detail` must contain everything needed to understand the witness.
    pub fn violation(&mut self, sub: &str, idx: u64, signature: &str, detail: Value) {
        let c = self
            .report
            .violation_counts
            .entry(signature.to_string())
            .or_insert(0);
        *c += 1;
        if *c <= VIOL_PER_SIG && self.report.violations.len() < VIOL_CAP {
            self.report.violations.push(json!({
                "property": self.property,
                "signature": signature,
                "sub": sub,
                "case": idx,
                "seed": self.seed,
                "tier": if self.quick() { "quick" } else { "thorough" },
                "detail": detail,
            }));
        }
    }

    pub fn note(&mut self, s: String) {
        if self.report.notes.len() < 20 {
            self.report.notes.push(s);
        }
    }

    pub fn finish(&mut self) {
        let r = &self.report;
        let mut nt: Vec<String> = r.nontrivial.iter().map(|h| format!("{:x}", h)).collect();
        nt.sort();
        let v = json!({
            "property": self.property,
            "tier": if self.quick() { "quick" } else { "thorough" },
            "seed": self.seed,
            "shard": self.shard,
            "nshards": self.nshards,
            "evaluations": r.evaluations,
            "cases_run": r.cases_run,
            "nontrivial_hashes": nt,
            "nt_overflow": r.nt_overflow,
            "samples": r.samples,
            "violations": r.violations,
            "violation_counts": r.violation_counts,
            "obs": r.obs,
            "notes": r.notes,
            "budget_exhausted": r.budget_exhausted,
            "exhaustive": r.exhaustive,
            "wall_s": self.start.elapsed().as_secs_f64(),
            "complete": true,
        });
        let s = serde_json::to_string(&v).unwrap();
        match &self.out {
            Some(p) => std::fs::write(p, s).expect("write shard report"),
            None => println!("{}", s),
        }
    }
}

thread_local! {
    static LAST_PANIC: RefCell<Option<(String, String)>> = RefCell::new(None);
}

pub fn install_panic_hook() {
    std::panic::set_hook(Box::new(|info| {
        let loc = info
            .location()
            .map(|l| l.file().to_string())
            .unwrap_or_else(|| "?".into());
        let msg = if let Some(s) = info.payload().downcast_ref::<&str>() {
            s.to_string()
        } else if let Some(s) = info.payload().downcast_ref::<String>() {
            s.clone()
        } else {
            "<non-string payload>".to_string()
        };
        LAST_PANIC.with(|p| *p.borrow_mut() = Some((loc, msg)));
    }));
}

/// Strips the registry/hash prefix so that signatures are stable across machines.
fn normalise_path(p: &str) -> String {
    if let Some(i) = p.find("/registry/src/") {
        let rest = &p[i + "/registry/src/".len()..];
        return match rest.find('/') {
            Some(j) => rest[j + 1..].to_string(),
            None => rest.to_string(),
        };
    }
    if let Some(i) = p.find("/rustlib/src/rust/") {
        return format!("std:{}", &p[i + "/rustlib/src/rust/".len()..]);
    }
    p.trim_start_matches("/repo/").to_string()
}

/// Runs `f`, converting a panic into `Err(signature)`, where the signature is
/// `panic:<file>:<message prefix>` without line numbers.
pub fn guarded<T>(f: impl FnOnce() -> T) -> Result<T, String> {
    LAST_PANIC.with(|p| *p.borrow_mut() = None);
    match catch_unwind(AssertUnwindSafe(f)) {
        Ok(v) => Ok(v),
        Err(_) => {
            let (loc, msg) = LAST_PANIC
                .with(|p| p.borrow_mut().take())
                .unwrap_or(("?".into(), "?".into()));
            let mut m: String = msg
                .chars()
                .map(|c| if c.is_ascii_digit() { '#' } else { c })
                .take(70)
                .collect();
            while m.contains("##") {
                m = m.replace("##", "#");
            }
            Err(format!("panic:{}:{}", normalise_path(&loc), m))
        }
    }
}
