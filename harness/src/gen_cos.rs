//! Generator for cosmetic rules with a structured description (used by the O-cosmetic model and,
//! through `.line`, by the serialization monitors).

use crate::rng::Rng;

/// Page hosts with their registrable domain (ground truth written down by hand from the PSL).
pub const PAGES: &[(&str, &str)] = &[
    ("example.com", "example.com"),
    ("sub.example.com", "example.com"),
    ("a.sub.example.com", "example.com"),
    ("b.co.uk", "b.co.uk"),
    ("x.b.co.uk", "b.co.uk"),
    ("y.x.b.co.uk", "b.co.uk"),
    ("other.org", "other.org"),
    ("example.org", "example.org"),
    ("sub.example.org", "example.org"),
    ("xn--bcher-kva.example", "xn--bcher-kva.example"),
    ("shop.xn--bcher-kva.example", "xn--bcher-kva.example"),
];

pub const LOCS: &[&str] = &[
    "example.com",
    "sub.example.com",
    "a.sub.example.com",
    "b.co.uk",
    "x.b.co.uk",
    "other.org",
    "example.org",
    "example.*",
    "sub.example.*",
    "b.*",
    "x.b.*",
    "com",
    "co.uk",
    "org",
    "uk",
    "example",
    "nomatch.net",
    "bücher.example",
    "bücher.*",
];

pub const SELS: &[&str] = &[
    ".ad",
    ".ad2",
    "#ban",
    ".ad > div",
    "#ban .x",
    "div[ad]",
    "a[href^=\"x\"]",
    ".c1",
    ".c1.c2",
    "#ban:not(.y)",
    ".ad-box, .ad-top",
    "span",
];

/// Procedural selectors (only parsed as such with the `css-validation` feature) with the operator
/// list the engine must emit for them.
pub const PROCEDURAL: &[(&str, &[(&str, &str)])] = &[
    (".x:has-text(y)", &[("css-selector", ".x"), ("has-text", "y")]),
    (".c1:upward(2)", &[("css-selector", ".c1"), ("upward", "2")]),
    ("div:matches-css(color: red) > .z", &[("css-selector", "div"), ("matches-css", "color: red"), ("css-selector", " > .z")]),
    (".q:min-text-length(5)", &[("css-selector", ".q"), ("min-text-length", "5")]),
    (":xpath(//div)", &[("xpath", "//div")]),
    (".m:matches-path(/p)", &[("css-selector", ".m"), ("matches-path", "/p")]),
    (".a:has-text(/re/i)", &[("css-selector", ".a"), ("has-text", "/re/i")]),
];

#[cfg(feature = "css")]
pub const SELS_ALL: &[&str] = &[
    ".ad", ".ad2", "#ban", ".ad > div", "#ban .x", "div[ad]", "a[href^=\"x\"]", ".c1", ".c1.c2", "#ban:not(.y)", ".ad-box, .ad-top", "span",
    ".x:has-text(y)", ".c1:upward(2)", "div:matches-css(color: red) > .z", ".q:min-text-length(5)", ":xpath(//div)", ".m:matches-path(/p)", ".a:has-text(/re/i)",
];
#[cfg(not(feature = "css"))]
pub const SELS_ALL: &[&str] = SELS;

pub const SCRIPTS: &[&str] = &["s0", "s1, a", "s1, b", "s2, x, y", "tmpl, v", "missing, q"];

#[derive(Clone, Debug, PartialEq, Eq)]
pub enum Body {
    Hide(String),
    /// selector, action text as spelt (":style(..)", ":remove()", ":remove-attr(a)", ":remove-class(c)")
    Action(String, String),
    Script(String),
}

#[derive(Clone, Debug)]
pub struct CosRule {
    /// positive locations with `.*` stripped, punycoded
    pub pos: Vec<String>,
    pub neg: Vec<String>,
    pub unhide: bool,
    pub body: Body,
    pub line: String,
}

fn puny(loc: &str) -> String {
    if loc.is_ascii() {
        loc.to_string()
    } else {
        idna::domain_to_ascii(loc).unwrap_or_else(|_| loc.to_string())
    }
}

pub fn gen_cos_rule(r: &mut Rng, sels: &[&'static str], allow_script: bool) -> CosRule {
    let np = r.below(3);
    let mut nn = if r.chance(1, 3) { 1 + r.below(2) } else { 0 };
    let unhide = r.chance(1, 4) && np > 0;
    if unhide {
        nn = 0;
    }
    let pos: Vec<&str> = (0..np).map(|_| r.ps(LOCS)).collect();
    let neg: Vec<&str> = (0..nn).map(|_| r.ps(LOCS)).collect();
    let constrained = np + nn > 0;
    let body = if allow_script && np > 0 && r.chance(1, 5) {
        Body::Script(r.ps(SCRIPTS).to_string())
    } else if constrained && r.chance(1, 5) {
        Body::Action(
            r.ps(sels).to_string(),
            r.ps(&[":style(color: red)", ":remove()", ":remove-attr(data-x)", ":remove-class(cls)", ":style(display: block !important)"]).to_string(),
        )
    } else {
        Body::Hide(r.ps(sels).to_string())
    };
    let mut locs: Vec<String> = pos.iter().map(|s| s.to_string()).chain(neg.iter().map(|n| format!("~{}", n))).collect();
    if r.chance(1, 3) {
        r.shuffle(&mut locs);
    }
    let marker = if unhide { "#@#" } else { "##" };
    let tail = match &body {
        Body::Hide(s) => s.clone(),
        Body::Action(s, a) => format!("{}{}", s, a),
        Body::Script(a) => format!("+js({})", a),
    };
    let line = format!("{}{}{}", locs.join(","), marker, tail);
    CosRule {
        pos: pos.iter().map(|p| puny(p.trim_end_matches(".*"))).collect(),
        neg: neg.iter().map(|p| puny(p.trim_end_matches(".*"))).collect(),
        unhide,
        body,
        line,
    }
}

pub fn gen_cos_list(r: &mut Rng, max: usize, allow_script: bool) -> Vec<CosRule> {
    let n = 1 + r.below(max);
    let mut v: Vec<CosRule> = (0..n).map(|_| gen_cos_rule(r, SELS_ALL, allow_script)).collect();
    if allow_script && r.chance(1, 8) {
        // blanket scriptlet exception
        let loc = r.ps(LOCS);
        v.push(CosRule {
            pos: vec![puny(loc.trim_end_matches(".*"))],
            neg: vec![],
            unhide: true,
            body: Body::Script(String::new()),
            line: format!("{}#@#+js()", loc),
        });
    }
    v
}
