//! O-cosmetic — string-level model of cosmetic scoping (C16) and the generic class/id partition
//! (C17), written from the documented behaviour, not from the hash-based implementation.

use crate::gen_cos::{Body, CosRule};
use serde_json::{json, Value};
use std::collections::BTreeSet;

/// Locations that cover a page: host suffixes from the registrable domain up to the host, their
/// entity forms (public suffix stripped) and the bare public suffix.
pub fn lookup(host: &str, domain: &str) -> BTreeSet<String> {
    let mut out = BTreeSet::new();
    let ps = domain.split_once('.').map(|x| x.1).unwrap_or("");
    let mut cur = host;
    loop {
        let aligned = cur.ends_with(domain) && (cur.len() == domain.len() || cur.as_bytes()[cur.len() - domain.len() - 1] == b'.');
        if aligned {
            out.insert(cur.to_string());
            if !ps.is_empty() {
                out.insert(cur[..cur.len() - ps.len() - 1].to_string());
            }
        }
        match cur.split_once('.') {
            Some((_, rest)) if rest.len() >= domain.len() => cur = rest,
            _ => break,
        }
    }
    if !ps.is_empty() {
        out.insert(ps.to_string());
        // entity forms of label-suffixes below the registrable domain's first label, e.g. `b.*`
        // for x.b.co.uk: every label-aligned suffix of host-without-public-suffix
        let without = &host[..host.len() - ps.len() - 1];
        let mut c = without;
        loop {
            out.insert(c.to_string());
            match c.split_once('.') {
                Some((_, rest)) => c = rest,
                None => break,
            }
        }
    }
    out
}

/// Leading class/id key of a selector after CSS unescaping.
/// Returns (kind char, key, exotic) where `exotic` means the key contains characters other than
/// letters, digits, `_` and `-` (placement of such selectors is only constrained by the
/// partition clause).
pub fn key_of(sel: &str) -> Option<(char, String, bool)> {
    let mut chars = sel.chars().peekable();
    let kind = chars.next()?;
    if kind != '.' && kind != '#' {
        return None;
    }
    let mut key = String::new();
    let mut exotic = false;
    while let Some(&c) = chars.peek() {
        if c.is_alphanumeric() || c == '_' || c == '-' {
            key.push(c);
            chars.next();
        } else if c == '\\' {
            chars.next();
            let mut hex = String::new();
            while let Some(&h) = chars.peek() {
                if h.is_ascii_hexdigit() && hex.len() < 6 {
                    hex.push(h);
                    chars.next();
                } else {
                    break;
                }
            }
            if !hex.is_empty() {
                // a hex escape is terminated by one optional whitespace
                if let Some(&w) = chars.peek() {
                    if w == ' ' {
                        chars.next();
                    } else {
                        // without the terminating space the implementation's reading is unspecified
                        exotic = true;
                    }
                }
                match u32::from_str_radix(&hex, 16).ok().and_then(char::from_u32) {
                    Some(ch) => {
                        if !(ch.is_alphanumeric() || ch == '_' || ch == '-') {
                            exotic = true;
                        }
                        key.push(ch);
                    }
                    None => return None,
                }
            } else {
                match chars.next() {
                    Some(ch) => {
                        exotic = true;
                        key.push(ch);
                    }
                    None => return None,
                }
            }
        } else if !c.is_ascii() {
            exotic = true;
            key.push(c);
            chars.next();
        } else {
            break;
        }
    }
    if key.is_empty() {
        None
    } else {
        Some((kind, key, exotic))
    }
}

/// Operator list for a selector: a single css-selector, or (with css-validation) the decomposition
/// of a procedural selector from the generator's table.
fn selector_ops(sel: &str) -> (Value, bool) {
    #[cfg(feature = "css")]
    for (text, ops) in crate::gen_cos::PROCEDURAL {
        if *text == sel {
            let v: Vec<Value> = ops.iter().map(|(t, a)| json!({"type": t, "arg": a})).collect();
            return (Value::Array(v), true);
        }
    }
    (json!([{"type": "css-selector", "arg": sel}]), false)
}

fn procedural_json(sel: &str) -> Option<String> {
    let (ops, procedural) = selector_ops(sel);
    if procedural {
        Some(json!({"selector": ops}).to_string())
    } else {
        None
    }
}

fn action_json(sel: &str, action: &str) -> Value {
    let a = if let Some(x) = action.strip_prefix(":style(") {
        json!({"type": "style", "arg": x.trim_end_matches(')')})
    } else if action == ":remove()" {
        json!({"type": "remove"})
    } else if let Some(x) = action.strip_prefix(":remove-attr(") {
        json!({"type": "remove-attr", "arg": x.trim_end_matches(')')})
    } else if let Some(x) = action.strip_prefix(":remove-class(") {
        json!({"type": "remove-class", "arg": x.trim_end_matches(')')})
    } else {
        json!(null)
    };
    json!({"selector": selector_ops(sel).0, "action": a})
}

#[derive(Debug, Default, Clone, PartialEq)]
pub struct PageModel {
    pub hide: BTreeSet<String>,
    pub exceptions: BTreeSet<String>,
    pub actions: BTreeSet<String>, // canonical JSON text
    pub scripts: BTreeSet<String>, // +js(...) argument strings to inject
    pub generic_keyed: BTreeSet<String>,
    pub generic_misc: BTreeSet<String>,
    pub scoped_here: usize,
    pub scoped_elsewhere: usize,
}

/// `rules` must only contain rules that the parser accepts.
pub fn page_model(rules: &[&CosRule], host: &str, domain: &str, generichide: bool) -> PageModel {
    let lk = lookup(host, domain);
    let mut m = PageModel::default();
    let (mut hide, mut unhide) = (BTreeSet::new(), BTreeSet::new());
    let (mut act, mut unact) = (BTreeSet::new(), BTreeSet::new());
    let (mut inj, mut uninj) = (BTreeSet::new(), BTreeSet::new());
    let mut blanket = false;
    for ru in rules {
        let is_generic = ru.pos.is_empty() && ru.neg.is_empty();
        let hidden_generic = ru.pos.is_empty() && !ru.neg.is_empty() && matches!(ru.body, Body::Hide(_));
        if is_generic || hidden_generic {
            if let Body::Hide(sel) = &ru.body {
                if procedural_json(sel).is_some() {
                    // procedural filters cannot be generic: silently ignored
                } else if key_of(sel).is_some() {
                    m.generic_keyed.insert(sel.clone());
                } else {
                    m.generic_misc.insert(sel.clone());
                }
            }
        }
        if is_generic {
            continue;
        }
        let p_hit = ru.pos.iter().any(|l| lk.contains(l));
        let n_hit = ru.neg.iter().any(|l| lk.contains(l));
        if p_hit || n_hit {
            m.scoped_here += 1;
        } else {
            m.scoped_elsewhere += 1;
        }
        match &ru.body {
            Body::Hide(sel) if procedural_json(sel).is_some() => {
                let item = procedural_json(sel).unwrap();
                let (to_pos, to_neg) = if ru.unhide { (&mut unact, &mut act) } else { (&mut act, &mut unact) };
                if p_hit {
                    to_pos.insert(item.clone());
                }
                if n_hit {
                    to_neg.insert(item);
                }
            }
            Body::Hide(sel) => {
                let (to_pos, to_neg) = if ru.unhide { (&mut unhide, &mut hide) } else { (&mut hide, &mut unhide) };
                if p_hit {
                    to_pos.insert(sel.clone());
                }
                if n_hit {
                    to_neg.insert(sel.clone());
                }
            }
            Body::Action(sel, a) => {
                let item = action_json(sel, a).to_string();
                let (to_pos, to_neg) = if ru.unhide { (&mut unact, &mut act) } else { (&mut act, &mut unact) };
                if p_hit {
                    to_pos.insert(item.clone());
                }
                if n_hit {
                    to_neg.insert(item);
                }
            }
            Body::Script(args) => {
                let (to_pos, to_neg) = if ru.unhide { (&mut uninj, &mut inj) } else { (&mut inj, &mut uninj) };
                if p_hit {
                    if ru.unhide && args.is_empty() {
                        blanket = true;
                    }
                    to_pos.insert(args.clone());
                }
                if n_hit {
                    to_neg.insert(args.clone());
                }
            }
        }
    }
    m.exceptions = unhide.clone();
    m.hide = hide.difference(&unhide).cloned().collect();
    if !generichide {
        for s in m.generic_misc.difference(&unhide) {
            m.hide.insert(s.clone());
        }
    }
    m.actions = act.difference(&unact).cloned().collect();
    m.scripts = if blanket { BTreeSet::new() } else { inj.difference(&uninj).cloned().collect() };
    m
}

/// Canonical JSON text of an emitted procedural/action filter, for set comparison.
pub fn canonical_action(s: &str) -> String {
    serde_json::from_str::<Value>(s).map(|v| v.to_string()).unwrap_or_else(|_| format!("<unparsable>{}", s))
}
