//! Reference models, written independently of the code under test.
pub mod cosmetic;
pub mod pattern;
pub mod removeparam;
pub mod resources;
pub mod scan;
