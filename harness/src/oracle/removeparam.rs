//! Independent `$removeparam` rewriter operating on the raw URL string (C14).
//!
//! query  = text between the first `?` that precedes any `#` and the first `#`;
//! pieces = query split on `&`; a piece is dropped iff it contains `=`, the text after the first
//! `=` is non-empty and the text before it equals one of `params` (case-sensitively);
//! everything else is preserved byte for byte; `?` is dropped iff no piece remains.
//! Returns `None` when nothing was removed.

pub fn rewrite(url: &str, params: &[String]) -> Option<String> {
    let frag_at = url.find('#').unwrap_or(url.len());
    let (head, frag) = url.split_at(frag_at);
    let q_at = head.find('?')?;
    let (base, query_with_q) = head.split_at(q_at);
    let query = &query_with_q[1..];
    let mut kept: Vec<&str> = Vec::new();
    let mut removed = false;
    for piece in query.split('&') {
        let drop = match piece.find('=') {
            Some(eq) => {
                let (k, v) = (&piece[..eq], &piece[eq + 1..]);
                !v.is_empty() && params.iter().any(|p| p == k)
            }
            None => false,
        };
        if drop {
            removed = true;
        } else {
            kept.push(piece);
        }
    }
    if !removed {
        return None;
    }
    let mut out = String::with_capacity(url.len());
    out.push_str(base);
    let joined = kept.join("&");
    if !joined.is_empty() {
        out.push('?');
        out.push_str(&joined);
    }
    out.push_str(frag);
    Some(out)
}

/// Oracle-free preservation check: `out` must be obtainable from `url` by deleting whole
/// `&`-separated query pieces (and separators), touching nothing before `?` or after `#`.
pub fn is_piece_deletion(url: &str, out: &str) -> bool {
    let frag_at = url.find('#').unwrap_or(url.len());
    let (head, frag) = url.split_at(frag_at);
    let q_at = match head.find('?') {
        Some(i) => i,
        None => return false,
    };
    let base = &head[..q_at];
    if !out.starts_with(base) || !out.ends_with(frag) || out.len() < base.len() + frag.len() {
        return false;
    }
    let mid = &out[base.len()..out.len() - frag.len()];
    let out_pieces: Vec<&str> = if mid.is_empty() {
        vec![]
    } else if let Some(m) = mid.strip_prefix('?') {
        m.split('&').collect()
    } else {
        return false;
    };
    // subsequence test
    let mut it = head[q_at + 1..].split('&');
    'outer: for p in out_pieces {
        for q in it.by_ref() {
            if q == p {
                continue 'outer;
            }
        }
        return false;
    }
    true
}
