//! O-scan: linear scan + documented precedence.
//!
//! Every successfully parsed network rule of a list is evaluated alone with the crate's public
//! per-rule matcher (fresh regex manager owned by the oracle, rules held in a `Vec` that is never
//! reallocated after construction) and the hits are combined by the precedence documented on
//! `BlockerResult` / `Blocker::check_parameterised` / `get_csp_directives`. The result is
//! independent of bucketing, de-duplication, optimisation, tag-list rebuilding, regex caching
//! and serialization.

use adblock::filters::network::{NetworkFilter, NetworkFilterMaskHelper, NetworkMatchable};
use adblock::lists::{parse_filter, ParseOptions, ParsedFilter};
use adblock::regex_manager::RegexManager;
use adblock::request::{Request, RequestType};
use std::collections::{BTreeSet, HashSet};

use super::removeparam;
use super::resources::ResModel;

#[derive(Clone, Copy, PartialEq, Eq, Debug)]
pub enum Cat {
    Csp,
    Removeparam,
    GenericHide,
    Exception,
    Important,
    Tagged,
    Normal,
    /// redirect-rule only (never blocks)
    RedirectOnly,
}

pub struct ScanRule {
    pub line: String,
    pub f: NetworkFilter,
    pub tag: Option<String>,
    pub cat: Cat,
    pub in_redirects: bool,
}

pub struct Scan {
    pub rules: Vec<ScanRule>,
    rm: RegexManager,
    pub parsed: usize,
    pub cancelled: usize,
}

#[derive(Clone, Debug, PartialEq, Eq)]
pub struct Verdict {
    pub matched: bool,
    pub important: bool,
    pub exception: bool,
    /// acceptable redirect values (set-valued on priority ties)
    pub redirect_ok: BTreeSet<Option<String>>,
    pub rewritten: Option<String>,
    pub csp: Option<BTreeSet<String>>,
    // observation only
    pub hits: usize,
    pub hit_cats: u32,
    pub redirect_candidates: usize,
    pub redirect_exceptions: usize,
    pub removeparam_hits: usize,
    pub csp_hits: usize,
    pub csp_exception_hits: usize,
    /// some active blocking rule / some active exception rule matches (before precedence)
    pub raw_block: bool,
    pub raw_exception: bool,
}

impl Verdict {
    /// (matched, important, exception present) for the multi-engine entry point
    /// `check_network_request_subset(request, previously_matched_rule, force_check_exceptions)`:
    /// important rules are always consulted; ordinary blocking rules only if no earlier engine
    /// matched; exceptions whenever a non-important rule of this engine matched, and otherwise
    /// only if an earlier engine matched or the caller forces them; the request counts as
    /// matched if no exception applies and this or an earlier engine matched.
    pub fn with_flags(&self, previously_matched: bool, force_exceptions: bool, supported: bool) -> (bool, bool, bool) {
        if !supported {
            return (false, false, false);
        }
        let imp = self.important;
        let filter_some = imp || (!previously_matched && self.raw_block);
        let exception = if imp {
            false
        } else if filter_some {
            self.raw_exception
        } else {
            (previously_matched || force_exceptions) && self.raw_exception
        };
        (!exception && (filter_some || previously_matched), imp, exception)
    }
}

pub fn categorize(f: &NetworkFilter, tag: &Option<String>) -> Cat {
    if f.is_csp() {
        Cat::Csp
    } else if f.is_removeparam() {
        Cat::Removeparam
    } else if f.is_generic_hide() {
        Cat::GenericHide
    } else if f.is_exception() {
        Cat::Exception
    } else if f.is_important() {
        Cat::Important
    } else if tag.is_some() && !f.is_redirect() {
        Cat::Tagged
    } else if !f.is_redirect() || f.also_block_redirect() {
        Cat::Normal
    } else {
        Cat::RedirectOnly
    }
}

pub fn parse_network(line: &str, opts: ParseOptions) -> Option<NetworkFilter> {
    match parse_filter(line, true, opts) {
        Ok(ParsedFilter::Network(f)) => Some(f),
        _ => None,
    }
}

impl Scan {
    pub fn new<S: AsRef<str>>(lines: &[S], opts: ParseOptions) -> Scan {
        let parsed: Vec<(String, NetworkFilter)> = lines
            .iter()
            .filter_map(|l| parse_network(l.as_ref(), opts).map(|f| (l.as_ref().to_string(), f)))
            .collect();
        let bad: HashSet<u64> = parsed
            .iter()
            .filter(|(_, f)| f.is_badfilter())
            .map(|(_, f)| f.get_id_without_badfilter())
            .collect();
        let n_parsed = parsed.len();
        let mut rules = Vec::with_capacity(n_parsed);
        for (line, f) in parsed {
            if f.is_badfilter() || bad.contains(&f.get_id()) {
                continue;
            }
            let tag = f.verif_tag().map(|s| s.to_string());
            let cat = categorize(&f, &tag);
            let in_redirects = f.is_redirect();
            rules.push(ScanRule {
                line,
                f,
                tag,
                cat,
                in_redirects,
            });
        }
        let cancelled = n_parsed - rules.len();
        Scan {
            rules,
            rm: RegexManager::default(),
            parsed: n_parsed,
            cancelled,
        }
    }

    /// Indices of live rules whose pattern and options match the request.
    pub fn hits(&mut self, rq: &Request) -> Vec<usize> {
        let mut v = vec![];
        for (i, r) in self.rules.iter().enumerate() {
            if r.f.matches(rq, &mut self.rm) {
                v.push(i);
            }
        }
        v
    }

    pub fn verdict(
        &mut self,
        rq: &Request,
        orig_url: &str,
        tags: &HashSet<String>,
        res: &ResModel,
    ) -> Verdict {
        let mut v = Verdict {
            matched: false,
            important: false,
            exception: false,
            redirect_ok: BTreeSet::new(),
            rewritten: None,
            csp: None,
            hits: 0,
            hit_cats: 0,
            redirect_candidates: 0,
            redirect_exceptions: 0,
            removeparam_hits: 0,
            csp_hits: 0,
            csp_exception_hits: 0,
            raw_block: false,
            raw_exception: false,
        };
        let (csp, csp_hits, csp_exc) = self.csp_detail(rq, tags);
        v.csp = csp;
        v.csp_hits = csp_hits;
        v.csp_exception_hits = csp_exc;
        if !rq.is_supported {
            v.redirect_ok.insert(None);
            return v;
        }
        let hits = self.hits(rq);
        v.hits = hits.len();
        let (mut imp, mut blk, mut exc) = (false, false, false);
        let mut rp: Vec<String> = vec![];
        let mut red: Vec<(bool, String)> = vec![];
        for &i in &hits {
            let r = &self.rules[i];
            let active = r.tag.as_ref().map(|t| tags.contains(t)).unwrap_or(true);
            let untagged = r.tag.is_none();
            v.hit_cats |= 1 << (r.cat as u32);
            if r.in_redirects && untagged {
                if let Some(m) = r.f.modifier_option.as_ref() {
                    red.push((r.f.is_exception(), m.clone()));
                }
            }
            match r.cat {
                Cat::Csp | Cat::GenericHide | Cat::RedirectOnly => {}
                Cat::Removeparam => {
                    if untagged {
                        if let Some(m) = r.f.modifier_option.as_ref() {
                            rp.push(m.clone());
                        }
                    }
                }
                Cat::Exception => exc |= active,
                Cat::Important => imp |= active,
                Cat::Tagged => blk |= active,
                Cat::Normal => blk |= untagged,
            }
        }
        v.matched = imp || (blk && !exc);
        v.raw_block = blk;
        v.raw_exception = exc;
        v.important = imp;
        v.exception = !imp && blk && exc;
        // redirect: highest priority non-exception redirect whose modifier text is not the
        // modifier text of a matching redirect exception
        let exc_mods: Vec<&String> = red.iter().filter(|(e, _)| *e).map(|(_, m)| m).collect();
        v.redirect_exceptions = exc_mods.len();
        v.redirect_candidates = red.len() - exc_mods.len();
        v.removeparam_hits = rp.len();
        let mut best: Option<i32> = None;
        let mut names: BTreeSet<String> = BTreeSet::new();
        for (e, m) in &red {
            if *e || exc_mods.contains(&m) {
                continue;
            }
            let (n, p) = match m.rfind(':') {
                Some(i) => match m[i + 1..].parse::<i32>() {
                    Ok(p) => (&m[..i], p),
                    Err(_) => (&m[..], 0),
                },
                None => (&m[..], 0),
            };
            match best {
                Some(b) if p < b => {}
                Some(b) if p == b => {
                    names.insert(n.to_string());
                }
                _ => {
                    best = Some(p);
                    names.clear();
                    names.insert(n.to_string());
                }
            }
        }
        if names.is_empty() {
            v.redirect_ok.insert(None);
        } else {
            for n in names {
                v.redirect_ok.insert(res.redirect_data_url(&n));
            }
        }
        v.rewritten = if imp {
            None
        } else {
            removeparam::rewrite(orig_url, &rp)
        };
        v
    }

    pub fn csp(&mut self, rq: &Request, tags: &HashSet<String>) -> Option<BTreeSet<String>> {
        self.csp_detail(rq, tags).0
    }

    /// (directive set, matching csp rules, matching csp exceptions)
    pub fn csp_detail(&mut self, rq: &Request, tags: &HashSet<String>) -> (Option<BTreeSet<String>>, usize, usize) {
        if rq.request_type != RequestType::Document && rq.request_type != RequestType::Subdocument {
            return (None, 0, 0);
        }
        // only http, https, ws and wss requests are eligible for matching
        if !rq.is_supported {
            return (None, 0, 0);
        }
        let (mut n_hits, mut n_exc) = (0usize, 0usize);
        let mut on = BTreeSet::new();
        let mut off = BTreeSet::new();
        let mut blanket = false;
        let mut any = false;
        for i in 0..self.rules.len() {
            if self.rules[i].cat != Cat::Csp {
                continue;
            }
            let active = self.rules[i]
                .tag
                .as_ref()
                .map(|t| tags.contains(t))
                .unwrap_or(true);
            if !active {
                continue;
            }
            let r = &self.rules[i];
            if !r.f.matches(rq, &mut self.rm) {
                continue;
            }
            any = true;
            n_hits += 1;
            if r.f.is_exception() {
                n_exc += 1;
            }
            match (r.f.modifier_option.as_ref(), r.f.is_exception()) {
                (Some(d), false) => {
                    on.insert(d.clone());
                }
                (Some(d), true) => {
                    off.insert(d.clone());
                }
                (None, true) => blanket = true,
                (None, false) => {}
            }
        }
        if !any || blanket {
            return (None, n_hits, n_exc);
        }
        let d: BTreeSet<String> = on.difference(&off).cloned().collect();
        if d.is_empty() {
            (None, n_hits, n_exc)
        } else {
            (Some(d), n_hits, n_exc)
        }
    }
}

pub fn split_csp(s: &Option<String>) -> Option<BTreeSet<String>> {
    s.as_ref()
        .map(|s| s.split(',').map(|x| x.to_string()).collect())
}
