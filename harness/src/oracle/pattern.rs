//! O-pattern — reference matcher for ABP/uBO patterns over the bytes of the lower-cased URL.
//!
//! Atoms: literal byte, `*` (any run), `^` (one separator byte = anything outside
//! `[A-Za-z0-9_.%-]`, or, when it is the last atom, also the end of the URL).
//! Anchors: none / `|p` / `p|` / `|p|` / `||host rest` / `||host rest|`.
//! `||h rest`: some occurrence of `h` in the request hostname that starts at a label boundary and
//! ends at a label boundary (or `h` ends with '.', or `rest` starts with `*`), with `rest` matched
//! exactly at the URL position directly after that occurrence (to the end if right-anchored).
//! Dynamic programming, no regex crate.

#[derive(Clone, Copy, Debug, PartialEq, Eq, PartialOrd, Ord, Hash)]
pub enum Anchor {
    None,
    Left,
    Right,
    Both,
    Host,
    HostRight,
}

pub fn is_sep(c: u8) -> bool {
    !(c.is_ascii_alphanumeric() || c == b'_' || c == b'-' || c == b'.' || c == b'%')
}

/// Does `p` match a prefix of `s` (all of `s` if `to_end`)? Memoised over (pattern pos, text pos).
pub fn match_at(p: &[u8], s: &[u8], to_end: bool) -> bool {
    // reach[j] = pattern prefix consumed so far can end at text position j
    let mut reach = vec![false; s.len() + 1];
    reach[0] = true;
    for (k, &c) in p.iter().enumerate() {
        let mut next = vec![false; s.len() + 1];
        match c {
            b'*' => {
                let mut on = false;
                for j in 0..=s.len() {
                    on |= reach[j];
                    next[j] = on;
                }
            }
            b'^' => {
                for j in 0..s.len() {
                    if reach[j] && is_sep(s[j]) {
                        next[j + 1] = true;
                    }
                }
                if k == p.len() - 1 && reach[s.len()] {
                    next[s.len()] = true;
                }
            }
            c => {
                for j in 0..s.len() {
                    if reach[j] && s[j] == c {
                        next[j + 1] = true;
                    }
                }
            }
        }
        reach = next;
        if !reach.iter().any(|&b| b) {
            return false;
        }
    }
    if to_end {
        reach[s.len()]
    } else {
        reach.iter().any(|&b| b)
    }
}

/// `url` must be lower-cased and contain `://` followed by `req_host`.
pub fn reference(anchor: Anchor, rule_host: &str, body: &str, url: &str, req_host: &str) -> bool {
    let u = url.as_bytes();
    let p = body.as_bytes();
    match anchor {
        Anchor::None => (0..=u.len()).any(|i| match_at(p, &u[i..], false)),
        Anchor::Left => match_at(p, u, false),
        Anchor::Right => (0..=u.len()).any(|i| match_at(p, &u[i..], true)),
        Anchor::Both => match_at(p, u, true),
        Anchor::Host | Anchor::HostRight => {
            let hs = match url.find("://") {
                Some(i) => i + 3,
                None => return false,
            };
            if !url[hs..].starts_with(req_host) {
                return false;
            }
            let rh = req_host.as_bytes();
            let h = rule_host.as_bytes();
            if h.is_empty() {
                return match_at(p, &u[hs..], anchor == Anchor::HostRight)
                    || (0..=rh.len()).any(|i| match_at(p, &u[hs + i..], anchor == Anchor::HostRight));
            }
            if rh.len() < h.len() {
                return false;
            }
            for i in 0..=(rh.len() - h.len()) {
                if &rh[i..i + h.len()] != h {
                    continue;
                }
                if !(i == 0 || rh[i - 1] == b'.' || h[0] == b'.') {
                    continue;
                }
                let end = i + h.len();
                let wildcard = p.first() == Some(&b'*');
                if !(end == rh.len() || rh[end] == b'.' || h[h.len() - 1] == b'.' || wildcard) {
                    continue;
                }
                if match_at(p, &u[hs + end..], anchor == Anchor::HostRight) {
                    return true;
                }
            }
            false
        }
    }
}

/// Number of (possibly overlapping) occurrences of `needle` in `hay`.
pub fn occurrences(hay: &str, needle: &str) -> usize {
    if needle.is_empty() {
        return 0;
    }
    let (h, n) = (hay.as_bytes(), needle.as_bytes());
    if h.len() < n.len() {
        return 0;
    }
    (0..=(h.len() - n.len())).filter(|&i| &h[i..i + n.len()] == n).count()
}

pub fn spell(anchor: Anchor, rule_host: &str, body: &str) -> String {
    match anchor {
        Anchor::None => body.to_string(),
        Anchor::Left => format!("|{}", body),
        Anchor::Right => format!("{}|", body),
        Anchor::Both => format!("|{}|", body),
        Anchor::Host => format!("||{}{}", rule_host, body),
        Anchor::HostRight => format!("||{}{}|", rule_host, body),
    }
}

/// Degenerate spellings excluded from *verdicts* by the property's quantifier.
pub fn degenerate(anchor: Anchor, body: &str) -> bool {
    let host = matches!(anchor, Anchor::Host | Anchor::HostRight);
    if (body.starts_with('*') && !host)
        || body.ends_with('*')
        || body.contains("**")
        || body.contains("^^")
        || body.contains('\\')
        || (body.len() > 1 && body.starts_with('/') && body.ends_with('/'))
    {
        return true;
    }
    match anchor {
        // `||host...^|` and `||host*...|`
        Anchor::HostRight => body.ends_with('^') || body.starts_with('*'),
        _ => false,
    }
}
