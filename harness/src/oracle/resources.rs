//! Independent model of the resource store: lookup by name or alias, redirectability.

use crate::gen::ResDef;

pub struct ResModel<'a> {
    pub defs: &'a [ResDef],
}

impl<'a> ResModel<'a> {
    pub fn lookup(&self, ident: &str) -> Option<&'a ResDef> {
        self.defs
            .iter()
            .find(|d| d.name == ident)
            .or_else(|| self.defs.iter().find(|d| d.aliases.iter().any(|a| a == ident)))
    }

    /// The data URL a `$redirect` to `ident` must produce, or `None` if the resource is missing,
    /// needs a permission, or is of a kind that cannot be served as a redirect.
    pub fn redirect_data_url(&self, ident: &str) -> Option<String> {
        let d = self.lookup(ident)?;
        if d.perm != 0 {
            return None;
        }
        if d.kind == "template" || d.kind == "fn/javascript" {
            return None;
        }
        let mime = match d.kind.as_str() {
            "text/css" | "image/gif" | "text/html" | "application/javascript"
            | "application/json" | "audio/mp3" | "video/mp4" | "image/png" | "text/plain"
            | "text/xml" => d.kind.as_str(),
            _ => "application/octet-stream",
        };
        Some(format!("data:{};base64,{}", mime, d.content_b64()))
    }
}
