//! abverif — runtime-monitoring harness for brave/adblock-rust.
//!
//! `abverif <property> [--tier quick|thorough] [--seed N] [--shard i/n] [--budget-s S]
//!          [--out FILE] [--only-case sub:idx] [--set k=v ...]`
//!
//! Each invocation runs one shard of one property's monitors against the real engine and writes
//! a JSON shard report. The driver (`/verif/check`) builds, fans out shards, merges the reports,
//! applies known_findings.json and prints the interface lines.

mod alloc;
mod gen;
mod gen_cos;
mod mon;
mod oracle;
mod report;
mod rng;

use report::{Ctx, Report, Tier};

#[global_allocator]
static GLOBAL: alloc::Counting = alloc::Counting;
use std::collections::BTreeMap;
use std::time::Instant;

fn main() {
    let args: Vec<String> = std::env::args().collect();
    if args.len() < 2 {
        eprintln!("usage: abverif <property|subcommand> [options]");
        std::process::exit(2);
    }
    let property = args[1].to_uppercase();
    let mut ctx = Ctx {
        property: property.clone(),
        tier: Tier::Quick,
        seed: 1,
        shard: 0,
        nshards: 1,
        budget_s: 3600.0,
        only_case: None,
        out: None,
        extra: BTreeMap::new(),
        skip: vec![],
        journal: None,
        start: Instant::now(),
        report: Report::default(),
    };
    let mut i = 2;
    while i < args.len() {
        let a = args[i].as_str();
        let val = |i: usize| -> String {
            args.get(i + 1).cloned().unwrap_or_else(|| {
                eprintln!("missing value for {}", a);
                std::process::exit(2)
            })
        };
        match a {
            "--tier" => {
                ctx.tier = if val(i) == "thorough" { Tier::Thorough } else { Tier::Quick };
                i += 1;
            }
            "--seed" => {
                ctx.seed = val(i).parse().unwrap_or(1);
                i += 1;
            }
            "--shard" => {
                let v = val(i);
                let mut it = v.split('/');
                ctx.shard = it.next().and_then(|s| s.parse().ok()).unwrap_or(0);
                ctx.nshards = it.next().and_then(|s| s.parse().ok()).unwrap_or(1).max(1);
                i += 1;
            }
            "--budget-s" => {
                ctx.budget_s = val(i).parse().unwrap_or(3600.0);
                i += 1;
            }
            "--out" => {
                ctx.out = Some(val(i));
                i += 1;
            }
            "--only-case" => {
                let v = val(i);
                let mut it = v.splitn(2, ':');
                let sub = it.next().unwrap_or("").to_string();
                let k = it.next().and_then(|s| s.parse().ok()).unwrap_or(0);
                ctx.only_case = Some((sub, k));
                i += 1;
            }
            "--skip" => {
                let v = val(i);
                let mut it = v.splitn(2, ':');
                let sub = it.next().unwrap_or("").to_string();
                let k = it.next().and_then(|s| s.parse().ok()).unwrap_or(0);
                ctx.skip.push((sub, k));
                i += 1;
            }
            "--journal" => {
                ctx.journal = std::fs::File::create(val(i)).ok();
                i += 1;
            }
            "--set" => {
                let v = val(i);
                let mut it = v.splitn(2, '=');
                let k = it.next().unwrap_or("").to_string();
                let x = it.next().unwrap_or("1").to_string();
                ctx.extra.insert(k, x);
                i += 1;
            }
            other => {
                eprintln!("unknown option {}", other);
                std::process::exit(2);
            }
        }
        i += 1;
    }
    report::install_panic_hook();
    match property.as_str() {
        "C01" => mon::c01::run(&mut ctx),
        "C19" => mon::c19::run(&mut ctx),
        "C19PEER" => mon::c19::peer(&mut ctx),
        "C11" => mon::c11::run(&mut ctx),
        "C12" => mon::c12::run(&mut ctx),
        "C20" => mon::c20::run(&mut ctx),
        "C18" => mon::c18::run(&mut ctx),
        "C17" => mon::c17::run(&mut ctx),
        "C16" => mon::c16::run(&mut ctx),
        "C15" => mon::c15::run(&mut ctx),
        "C14" => mon::c14::run(&mut ctx),
        "C13" => mon::c13::run(&mut ctx),
        "C10" => mon::c10::run(&mut ctx),
        "C09" => mon::c09::run(&mut ctx),
        "C09CHILD" => mon::c09::child(&mut ctx),
        "C08" => mon::c08::run(&mut ctx),
        "C06" => mon::c06::run(&mut ctx),
        "C07" => mon::c07::run(&mut ctx),
        "C04" => mon::c04::run(&mut ctx),
        "C05" => mon::c05::run(&mut ctx),
        "C03" => mon::c03::run(&mut ctx),
        "C02" => mon::c02::run(&mut ctx),
        "DUMPCOS" => {
            // debugging aid: abverif DUMPCOS --set "rules=a##.x|b##.y" --set page=https://a/
            let rules: Vec<String> = ctx.extra.get("rules").map(|s| s.split('|').map(|x| x.to_string()).collect()).unwrap_or_default();
            let e = adblock::Engine::from_rules_debug(&rules, Default::default());
            let page = ctx.extra.get("page").cloned().unwrap_or_else(|| "https://example.com/".into());
            let r = e.url_cosmetic_resources(&page);
            println!("{}", serde_json::to_string_pretty(&r).unwrap());
            for l in &rules {
                println!("{} -> {}", l, adblock::lists::parse_filter(l, true, Default::default()).map(|_| "ok".to_string()).unwrap_or_else(|e| format!("{:?}", e)));
            }
            std::process::exit(0);
        }
        "DUMPGEN" => {
            // debugging aid: print a few generated clustered lists with one request each
            let n: u64 = ctx.extra.get("n").and_then(|s| s.parse().ok()).unwrap_or(3);
            for i in 0..n {
                let mut r = rng::Rng::for_case(ctx.seed, "dumpgen", i);
                let rules = gen::gen_clustered_list(&mut r, &gen::Profile::ALL);
                let q = gen::gen_request(&mut r, &rules);
                println!("--- {}\n{}\n=> {} {} {}", i, rules.join("\n"), q.url, q.source, q.rtype);
            }
            std::process::exit(0);
        }
        "DUMPNET" => {
            // debugging aid: abverif DUMPNET --set "rules=/a/b|;/a/c|" --set url=.. --set source=.. --set type=..
            let rules: Vec<String> = ctx.extra.get("rules").map(|s| s.split(';').map(|x| x.to_string()).collect()).unwrap_or_default();
            let url = ctx.extra.get("url").cloned().unwrap_or_default();
            let source = ctx.extra.get("source").cloned().unwrap_or_else(|| "https://o.org/".into());
            let ty = ctx.extra.get("type").cloned().unwrap_or_else(|| "image".into());
            for opt in [false, true] {
                let e = adblock::Engine::from_rules_parametrised(&rules, Default::default(), true, opt);
                let rq = adblock::request::Request::new(&url, &source, &ty).unwrap();
                println!("optimize={} -> {:?}", opt, e.check_network_request(&rq));
            }
            std::process::exit(0);
        }
        other => {
            eprintln!("unknown property {}", other);
            std::process::exit(2);
        }
    }
    ctx.finish();
}
