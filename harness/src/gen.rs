//! Seeded generators for network rules, requests and resources, built on collision vocabularies:
//! rules and URLs share tokens, partial tokens and substrings, so that a large fraction of the
//! generated (list, request) pairs interact.

use crate::rng::Rng;
use adblock::resources::{MimeType, PermissionMask, Resource, ResourceType};
use base64::{engine::Engine as _, prelude::BASE64_STANDARD};

pub const TOK: &[&str] = &[
    "ad", "ads", "adv", "advert", "banner", "img", "track", "foo", "bar", "x1", "js", "www", "com",
    "http", "https", "a", "b7", "pixel", "net",
];
pub const SEP: &[&str] = &["/", ".", "-", "_", "?", "=", "&", "/", ":", ";", "~", ",", "*", "!"];
pub const HOSTS: &[&str] = &[
    "ads.net",
    "sub.ads.net",
    "xads.net",
    "a.com",
    "b.co.uk",
    "x.b.co.uk",
    "example.org",
    "www.example.org",
    "track.io",
    "ads.track.io",
    "foo.bar.example.org",
];
pub const TAGS: &[&str] = &["t1", "t2", "t3"];
pub const TYPES: &[&str] = &[
    "script",
    "image",
    "xhr",
    "document",
    "subdocument",
    "other",
    "websocket",
    "stylesheet",
    "font",
    "media",
    "ping",
    "object",
];
pub const TYPE_OPTS: &[&str] = &[
    "script",
    "image",
    "~script",
    "xhr",
    "document",
    "subdocument",
    "~image",
    "websocket",
    "stylesheet",
    "~stylesheet",
    "font",
    "media",
    "ping",
    "object",
    "other",
    "~xhr",
    "~subdocument",
    "~websocket",
    "doc",
    "frame",
    "css",
];
pub const REDIRECT_NAMES: &[&str] = &[
    "noop.js",
    "1x1.gif",
    "noopjs",
    "nooptext",
    "perm.js",
    "tmpl.js",
    "missing.js",
    "fn.js",
];
pub const CSP_DIRECTIVES: &[&str] = &[
    "script-src 'none'",
    "img-src x",
    "frame-src y",
    "worker-src 'none'",
];
pub const PARAMS: &[&str] = &["ad", "foo", "x1", "utm_source", "fbclid", "a-b"];

/// What kinds of rules a monitor wants generated.
#[derive(Clone, Copy)]
pub struct Profile {
    pub exceptions: bool,
    pub important: bool,
    pub csp: bool,
    pub removeparam: bool,
    pub redirect: bool,
    pub badfilter: bool,
    pub tags: bool,
    pub generichide: bool,
    pub full_regex: bool,
    pub domains: bool,
}

impl Profile {
    pub const ALL: Profile = Profile {
        exceptions: true,
        important: true,
        csp: true,
        removeparam: true,
        redirect: true,
        badfilter: true,
        tags: true,
        generichide: true,
        full_regex: true,
        domains: true,
    };
    /// Only blocking / exception / important rules (no modifiers).
    pub const PLAIN: Profile = Profile {
        exceptions: true,
        important: true,
        csp: false,
        removeparam: false,
        redirect: false,
        badfilter: false,
        tags: false,
        generichide: false,
        full_regex: true,
        domains: true,
    };
}

pub fn gen_body(r: &mut Rng) -> String {
    let mut s = String::new();
    let n = 1 + r.below(4);
    if r.chance(1, 4) {
        s.push_str(r.ps(SEP));
    }
    for i in 0..n {
        if i > 0 {
            if r.chance(1, 6) {
                s.push('*');
            } else if r.chance(1, 6) {
                s.push('^');
            } else {
                s.push_str(r.ps(SEP));
            }
        }
        s.push_str(r.ps(TOK));
    }
    if r.chance(1, 4) {
        s.push_str(r.ps(SEP));
    } else if r.chance(1, 8) {
        s.push('^');
    }
    s
}

/// A body made only of one-character runs, so that the rule has no indexable token and must live
/// in the fallback bucket.
pub fn gen_tokenless_body(r: &mut Rng) -> String {
    let mut s = String::new();
    let n = 2 + r.below(3);
    for i in 0..n {
        if i > 0 {
            s.push_str(r.ps(&["/", "-", ".", "_"]));
        }
        s.push_str(r.ps(&["a", "b", "x", "7"]));
    }
    s
}

pub fn gen_regex_body(r: &mut Rng) -> String {
    let mut s = String::from("/");
    let n = 1 + r.below(3);
    for i in 0..n {
        if i > 0 {
            s.push_str(r.ps(&["\\/", "\\.", "-", ".*", ".", "[/_-]"]));
        }
        match r.below(5) {
            0 => {
                s.push('(');
                s.push_str(r.ps(TOK));
                s.push('|');
                s.push_str(r.ps(TOK));
                s.push(')');
            }
            1 => {
                s.push_str(r.ps(TOK));
                s.push_str(r.ps(&["\\d+", "[0-9]?", "s?", "\\d"]));
            }
            _ => s.push_str(r.ps(TOK)),
        }
    }
    s.push('/');
    s
}

fn gen_domain_opt(r: &mut Rng) -> String {
    let mut d = String::from(if r.chance(1, 5) { "from=" } else { "domain=" });
    let k = 1 + r.below(3);
    for i in 0..k {
        if i > 0 {
            d.push('|');
        }
        if r.chance(1, 4) {
            d.push('~');
        }
        d.push_str(r.ps(HOSTS));
    }
    d
}

/// One network rule line (Standard format).
pub fn gen_rule(r: &mut Rng, p: &Profile) -> String {
    let mut s = String::new();
    let exception = p.exceptions && r.chance(1, 5);
    if exception {
        s.push_str("@@");
    }
    let mut is_full_regex = false;
    let mut empty_pattern = false;
    match r.below(16) {
        0 | 1 => {
            s.push_str("||");
            s.push_str(r.ps(HOSTS));
            s.push('^');
        }
        2 | 3 => {
            s.push_str("||");
            s.push_str(r.ps(HOSTS));
            s.push('/');
            s.push_str(&gen_body(r));
        }
        4 => {
            s.push_str("||");
            s.push_str(r.ps(HOSTS));
            s.push_str(r.ps(&["^", "*", "^*", "/*"]));
            s.push_str(&gen_body(r));
            if r.chance(1, 4) {
                s.push('|');
            }
        }
        5 => {
            s.push('|');
            s.push_str(r.ps(&["https://", "http://", "ws://", "http*://", "wss://"]));
            if r.chance(2, 3) {
                s.push_str(r.ps(HOSTS));
                s.push('/');
                s.push_str(&gen_body(r));
            }
        }
        6 => {
            s.push_str(&gen_body(r));
            s.push('|');
        }
        7 => {
            if p.full_regex {
                s.push_str(&gen_regex_body(r));
                is_full_regex = true;
            } else {
                s.push_str(&gen_body(r));
            }
        }
        8 => s.push_str(&gen_tokenless_body(r)),
        9 => {
            // no pattern at all: only options decide
            if r.chance(1, 2) {
                s.push('*');
            }
            empty_pattern = true;
        }
        10 => {
            // bare single token (often a partial token in URLs)
            s.push_str(r.ps(TOK));
            if r.chance(1, 3) {
                s.push('|');
            }
        }
        11 => {
            // ||partial-host (no separator): label-prefix semantics
            s.push_str("||");
            s.push_str(r.ps(&["ads.", "ads", "sub.ads", "example", "track", "b.co"]));
        }
        _ => s.push_str(&gen_body(r)),
    }
    let mut opts: Vec<String> = vec![];
    if r.chance(1, 4) {
        opts.push(r.ps(TYPE_OPTS).to_string());
        if r.chance(1, 4) {
            opts.push(r.ps(TYPE_OPTS).to_string());
        }
    }
    if r.chance(1, 5) {
        opts.push(
            r.ps(&["third-party", "~third-party", "1p", "3p", "~1p", "first-party"])
                .to_string(),
        );
    }
    if p.domains && (r.chance(1, 5) || empty_pattern) {
        opts.push(gen_domain_opt(r));
    }
    let modifier = r.below(14);
    let mut has_modifier = false;
    if p.important && !exception && modifier == 0 {
        opts.push("important".into());
    }
    // an exception may carry `important` too; it stays an exception
    if p.important && exception && modifier == 0 && r.chance(1, 2) {
        opts.push("important".into());
    }
    if p.csp && modifier == 1 {
        // csp rules cannot carry content types
        opts.retain(|o| {
            !TYPE_OPTS.contains(&o.as_str())
        });
        if exception && r.chance(1, 3) {
            opts.push("csp".into());
        } else {
            opts.push(format!("csp={}", r.ps(CSP_DIRECTIVES)));
        }
        has_modifier = true;
    }
    if p.removeparam && modifier == 2 && !exception {
        opts.push(format!("removeparam={}", r.ps(PARAMS)));
        has_modifier = true;
    }
    if p.redirect && modifier == 3 {
        let name = r.ps(REDIRECT_NAMES);
        let prio = r.ps(&["", "", ":10", ":-3", ":0", ":x", ":"]);
        opts.push(format!("redirect={}{}", name, prio));
        has_modifier = true;
    }
    if p.redirect && modifier == 4 && !exception {
        let name = r.ps(REDIRECT_NAMES);
        let prio = r.ps(&["", ":5", ":10"]);
        opts.push(format!("redirect-rule={}{}", name, prio));
        has_modifier = true;
    }
    if p.generichide && modifier == 5 && exception {
        opts.push(r.ps(&["generichide", "ghide"]).into());
        has_modifier = true;
    }
    if is_full_regex && r.chance(1, 4) {
        opts.push("match-case".into());
    }
    // tag + redirect/removeparam/generichide is outside the stated domain
    if p.tags && r.chance(1, 6) && !has_modifier_blocks_tag(&opts) {
        opts.push(format!("tag={}", r.ps(TAGS)));
    }
    let _ = has_modifier;
    if !opts.is_empty() {
        if r.chance(1, 3) {
            r.shuffle(&mut opts);
        }
        s.push('$');
        s.push_str(&opts.join(","));
    } else if empty_pattern {
        s.push_str("$script");
    }
    s
}

fn has_modifier_blocks_tag(opts: &[String]) -> bool {
    opts.iter().any(|o| {
        o.starts_with("redirect") || o.starts_with("removeparam") || o == "generichide" || o == "ghide"
    })
}

/// A list of rules; with badfilter twins of earlier rules when the profile allows.
pub fn gen_list(r: &mut Rng, p: &Profile, max: usize) -> Vec<String> {
    let n = 1 + r.below(max);
    let mut rules: Vec<String> = Vec::with_capacity(n + 2);
    if p.domains && r.chance(1, 10) {
        rules.extend(gen_domain_cluster(r, p));
    }
    for _ in 0..n {
        if !rules.is_empty() && r.chance(1, 12) {
            // exact duplicate
            let d = r.pick(&rules).clone();
            rules.push(d);
        } else if !rules.is_empty() && r.chance(1, 10) {
            // near twin: same pattern, one option aspect different (or merely respelt)
            let base = r.pick(&rules).clone();
            match near_twin(r, &base, p) {
                Some(t) => rules.push(t),
                None => rules.push(gen_rule(r, p)),
            }
        } else if p.badfilter && !rules.is_empty() && r.chance(1, 10) {
            let base = r.pick(&rules).clone();
            if base.contains('$') {
                rules.push(format!("{},badfilter", base));
            } else {
                rules.push(format!("{}$badfilter", base));
            }
        } else {
            rules.push(gen_rule(r, p));
        }
    }
    rules
}

/// A rule with the same pattern as `rule` whose options differ in exactly one aspect that the
/// rule's stored identity may or may not cover: a negated `domain=` entry, a `tag=`, option
/// order/spelling (which must not matter at all).
pub fn near_twin(r: &mut Rng, rule: &str, p: &Profile) -> Option<String> {
    let (body, opts) = match rule.rfind('$') {
        Some(i) if !rule[i..].contains('/') && !rule[i..].contains(')') => (&rule[..i], &rule[i + 1..]),
        Some(_) => return None,
        None => (rule, ""),
    };
    if body.is_empty() || opts.contains("badfilter") {
        return None;
    }
    let mut parts: Vec<String> = opts.split(',').filter(|s| !s.is_empty()).map(|s| s.to_string()).collect();
    let dom = parts.iter().position(|o| o.starts_with("domain="));
    let tag = parts.iter().position(|o| o.starts_with("tag="));
    match r.below(4) {
        0 | 1 if dom.is_some() => {
            let i = dom.unwrap();
            let mut ds: Vec<String> = parts[i]["domain=".len()..].split('|').map(|s| s.to_string()).collect();
            let k = r.below(ds.len());
            ds[k] = match ds[k].strip_prefix('~') {
                Some(x) => x.to_string(),
                None => format!("~{}", ds[k]),
            };
            parts[i] = format!("domain={}", ds.join("|"));
        }
        0 | 1 if p.domains && !opts.contains("csp=") => {
            let h = r.ps(HOSTS);
            parts.push(if r.chance(1, 2) { format!("domain={}", h) } else { format!("domain=~{}", h) });
        }
        2 if tag.is_some() => {
            parts.remove(tag.unwrap());
        }
        2 if p.tags && !opts.contains("removeparam") && !opts.contains("redirect") && !opts.contains("generichide") => {
            parts.push(format!("tag={}", r.ps(TAGS)));
        }
        _ => {
            if parts.len() < 2 {
                return None;
            }
            r.shuffle(&mut parts);
            for o in parts.iter_mut() {
                let re = match o.as_str() {
                    "third-party" => "3p",
                    "3p" => "third-party",
                    "~third-party" => "1p",
                    "1p" => "~third-party",
                    "xhr" => "xmlhttprequest",
                    "xmlhttprequest" => "xhr",
                    "stylesheet" => "css",
                    "css" => "stylesheet",
                    _ => continue,
                };
                *o = re.to_string();
            }
        }
    }
    if parts.is_empty() {
        Some(body.to_string())
    } else {
        Some(format!("{}${}", body, parts.join(",")))
    }
}

/// Instantiate the body of a rule as literal URL text: `*` → random run, `^` → a separator.
pub fn instantiate_body(r: &mut Rng, rule: &str) -> String {
    let body = rule.trim_start_matches("@@");
    let body = match body.rfind('$') {
        Some(i) => &body[..i],
        None => body,
    };
    let body = body.trim_start_matches('|').trim_end_matches('|');
    if body.starts_with('/') && body.ends_with('/') && body.len() > 2 {
        // crude instantiation of the small regex grammar used by gen_regex_body
        let inner = &body[1..body.len() - 1];
        return inner
            .replace("\\/", "/")
            .replace("\\.", ".")
            .replace(".*", "zz")
            .replace("[/_-]", "_")
            .replace("\\d+", "42")
            .replace("[0-9]?", "7")
            .replace("s?", "s")
            .replace("\\d", "5")
            .replace('(', "")
            .replace(')', "")
            .split('|')
            .next()
            .unwrap_or("")
            .to_string();
    }
    let mut out = String::new();
    for c in body.chars() {
        match c {
            '*' => out.push_str(r.ps(&["zz", "", "/q/", "x"])),
            // (a literal `*` in a URL is just another separator character)
            '^' => out.push_str(r.ps(&["/", "?", ":", "&", "=", "*", "/", "?"])),
            c => out.push(c),
        }
    }
    out
}

#[derive(Clone)]
pub struct Req {
    pub url: String,
    pub source: String,
    pub rtype: &'static str,
}

/// A request aimed at the given rules: rule-derived with glue on both sides (so that boundary
/// tokens of the pattern become partial tokens of the URL), or vocabulary noise.
pub fn gen_request(r: &mut Rng, rules: &[String]) -> Req {
    let scheme = r.ps(&["https", "http", "https", "http", "ws", "wss", "https"]);
    let mut host = r.ps(HOSTS).to_string();
    let mut path = String::new();
    // hostname-anchored rule-derived host
    if !rules.is_empty() && r.chance(1, 3) {
        let rule = r.pick(rules);
        let t = rule.trim_start_matches("@@");
        if let Some(rest) = t.strip_prefix("||") {
            let end = rest
                .find(|c| c == '/' || c == '^' || c == '*' || c == '$' || c == '|')
                .unwrap_or(rest.len());
            let h = &rest[..end];
            if !h.is_empty() && h.contains('.') && !h.ends_with('.') {
                host = match r.below(4) {
                    0 => format!("sub.{}", h),
                    1 => format!("x{}", h),
                    _ => h.to_string(),
                };
                let after = &rest[end..];
                if !after.is_empty() && !after.starts_with('$') {
                    let inst = instantiate_body(r, after);
                    path.push_str(inst.trim_start_matches('/'));
                }
            }
        }
    }
    let n = r.below(4);
    for _ in 0..n {
        path.push_str(r.ps(SEP));
        if !rules.is_empty() && r.chance(1, 2) {
            let rule = r.pick(rules);
            let t = rule.trim_start_matches("@@");
            if t.starts_with("||") || ((t.starts_with("|http") || t.starts_with("|ws")) && r.chance(1, 2)) {
                path.push_str(r.ps(TOK));
                continue;
            }
            // (a start-anchored body embedded in the middle of the URL must not match)
            let body = instantiate_body(r, rule);
            if r.chance(1, 2) {
                path.push_str(r.ps(&["lo", "x", "q9"]));
            }
            path.push_str(&body);
            if r.chance(1, 2) {
                path.push_str(r.ps(&["er", "2", "s"]));
            }
        } else {
            path.push_str(r.ps(TOK));
        }
    }
    if r.chance(1, 3) {
        path.push_str(r.ps(&[
            "?ad=1&foo=2&x1=&y=3",
            "?utm_source=a&fbclid=zz",
            "?foo=1",
            "?y=1&ad=2#frag",
            "?a-b=1&foo=&ad",
        ]));
    }
    // a rule-derived body that occurs only in the fragment (matching runs over the whole URL)
    if !rules.is_empty() && r.chance(1, 8) {
        let rule = r.pick(rules);
        let t = rule.trim_start_matches("@@");
        if !t.starts_with('|') && !path.contains('#') {
            let b = instantiate_body(r, rule);
            if !b.is_empty() && !b.contains('#') {
                path.push_str("#/");
                path.push_str(b.trim_start_matches('/'));
                if r.chance(1, 2) {
                    path.push_str(r.ps(&["1", ".js", "/x"]));
                }
            }
        }
    }
    // a URL that ends exactly with the body of an end-anchored rule
    if !rules.is_empty() && r.chance(1, 5) {
        let rule = r.pick(rules);
        let body_end = rule.rfind('$').unwrap_or(rule.len());
        let t = rule[..body_end].trim_start_matches("@@");
        if t.ends_with('|') && !t.starts_with("||") && !t.starts_with("|http") && !t.starts_with("|ws") && t.len() > 2 {
            if let Some(i) = path.find(|c| c == '?' || c == '#') {
                path.truncate(i);
            }
            path.push_str(r.ps(SEP));
            let b = instantiate_body(r, rule);
            path.push_str(&b);
        }
    }
    let url = format!("{}://{}/{}", scheme, host, path.trim_start_matches('/'));
    // an initiator taken from some rule's domain= list
    let listed: Option<String> = if !rules.is_empty() && r.chance(1, 3) {
        let rule = r.pick(rules);
        rule.rfind("domain=").map(|i| {
            let list = rule[i + 7..].split(',').next().unwrap_or("");
            let ds: Vec<&str> = list.split('|').collect();
            r.pick(&ds).trim_start_matches('~').to_string()
        })
    } else {
        None
    };
    if let Some(d) = listed.filter(|d| !d.is_empty() && d.is_ascii() && !d.contains('*')) {
        let source = if r.chance(1, 4) { format!("https://sub.{}/p", d) } else { format!("https://{}/", d) };
        return Req { url, source, rtype: r.ps(TYPES) };
    }
    let source = match r.below(8) {
        0 => String::new(),
        1 => format!("https://{}/", host),
        2 => format!("https://sub.{}/page", host),
        _ => format!("https://{}/", r.ps(HOSTS)),
    };
    Req {
        url,
        source,
        rtype: r.ps(TYPES),
    }
}

// ---------------------------------------------------------------------------------------------
// Resources
// ---------------------------------------------------------------------------------------------

#[derive(Clone, Debug)]
pub struct ResDef {
    pub name: String,
    pub aliases: Vec<String>,
    /// mime string, or "template"
    pub kind: String,
    pub content: String, // decoded content
    pub deps: Vec<String>,
    pub perm: u8,
}

impl ResDef {
    pub fn to_resource(&self) -> Resource {
        Resource {
            name: self.name.clone(),
            aliases: self.aliases.clone(),
            kind: if self.kind == "template" {
                ResourceType::Template
            } else {
                ResourceType::Mime(MimeType::from(self.kind.as_str()))
            },
            content: BASE64_STANDARD.encode(self.content.as_bytes()),
            dependencies: self.deps.clone(),
            permission: PermissionMask::from_bits(self.perm),
        }
    }

    pub fn content_b64(&self) -> String {
        BASE64_STANDARD.encode(self.content.as_bytes())
    }
}

fn rd(name: &str, aliases: &[&str], kind: &str, content: &str, perm: u8) -> ResDef {
    ResDef {
        name: name.into(),
        aliases: aliases.iter().map(|s| s.to_string()).collect(),
        kind: kind.into(),
        content: content.into(),
        deps: vec![],
        perm,
    }
}

/// The standard resource store used by the network monitors (matches REDIRECT_NAMES).
pub fn standard_resources() -> Vec<ResDef> {
    vec![
        rd("noop.js", &["noopjs"], "application/javascript", "(function(){})()", 0),
        rd("1x1.gif", &["1x1-transparent.gif"], "image/gif", "GIF89a", 0),
        rd("noop.txt", &["nooptext"], "text/plain", "", 0),
        rd("perm.js", &[], "application/javascript", "perm()", 1),
        rd("tmpl.js", &[], "template", "tmpl({{1}})", 0),
        rd("fn.js", &[], "fn/javascript", "function fnjs(){}", 0),
    ]
}

// ---------------------------------------------------------------------------------------------
// Bucket-sharing clusters (C05, C04, C06, C07): groups of rules that index under one token and
// differ in a single aspect each, so that they land in the same bucket and (when their masks are
// equal) in the same fusion group.
// ---------------------------------------------------------------------------------------------

pub fn gen_cluster(r: &mut Rng, p: &Profile) -> Vec<String> {
    let tok = r.ps(&["advert", "banner", "track", "pixel", "foo"]);
    // now and then one fusion group with 33, 34 or 65 members (group sizes around a power of two)
    let big_group = r.chance(1, 25);
    let n = if big_group { [33usize, 34, 65][r.below(3)] } else { 3 + r.below(8) };
    let mut out = vec![];
    // a small option pool so that masks repeat (=> fusion groups of size > 1)
    let pool: Vec<&str> = vec!["", "", "", "script", "image", "script,image", "third-party", "~third-party", "xhr"];
    // sometimes the whole cluster consists of removeparam rules (same bucket, same mask, different
    // parameter names): the category an explicit optimize() must leave alone
    let rp_cluster = p.removeparam && !big_group && r.chance(1, 8);
    // sometimes every rule of the cluster carries a long initiator list (8-16 sites out of 24):
    // the per-rule unions of domain hashes saturate, the lists themselves still differ
    let long_domains = p.domains && !rp_cluster && r.chance(1, 6);
    for _ in 0..n {
        let mut s = String::new();
        let exception = p.exceptions && !big_group && r.chance(1, 5);
        if exception {
            s.push_str("@@");
        }
        // long-domain clusters keep to few shapes so that masks (and hence fusion keys) coincide
        let shape = if big_group { 18 } else if long_domains && r.chance(3, 4) { [0usize, 1, 11, 2][r.below(4)] } else { r.below(18) };
        match shape {
            12 => s.push_str(&format!("/{}*{}|", tok, r.ps(&["a", "b", "x1", "ab", "a?1"]))),
            15 => s.push_str(&format!("|https://ads.net/{}/{}|", tok, r.ps(&["a", "b", "ab", "a?1"]))),
            // hostname anchor with an empty hostname part (the pattern starts with a wildcard/separator)
            17 => s.push_str(&format!("||{}{}/{}", r.ps(&["*", "^", "/"]), tok, r.ps(&["a", "b"]))),
            // one of many same-shape token-less rules (one big fusion group)
            18 => s.push_str(&format!("{}{:02}", &tok[..2], out.len())),
            // a literal longer than most request URLs (same token, so it shares the bucket)
            16 => s.push_str(&format!("/{}/{}", tok, r.ps(&["abcdefghijklmnopqrstuvwxyz0123456789abcdefghijkl", "a-very-long-path-segment-that-exceeds-any-short-url/x", "0123456789012345678901234567890123456789012345678901234567890123456789"]))),
            13 => s.push_str(&format!("|https://ads.net/{}^{}", tok, r.ps(&["", "a", "b"]))),
            14 => s.push_str(&format!("|https://*/{}/{}", tok, r.ps(&["a", "b", "c"]))),
            0 => s.push_str(&format!("/{}/{}", tok, r.ps(&["a", "b", "c", "d", "1", "2"]))),
            1 => s.push_str(&format!("/{}-{}.", tok, r.ps(&["a", "b", "x"]))),
            2 => s.push_str(&format!("/{}*{}", tok, r.ps(&["a=", "b/", "x1"]))),
            3 => s.push_str(&format!("/{}^", tok)),
            4 => s.push_str(&format!("/{}/{}|", tok, r.ps(&["a", "b", "ab", "a?1", "a.gif", "a.gif?1"]))),
            5 => s.push_str(&format!("|https://ads.net/{}/", tok)),
            6 => s.push_str(&format!("||ads.net/{}/", tok)),
            7 => {
                if p.full_regex {
                    s.push_str(&format!("/\\/{}\\/[ab]\\d?/", tok))
                } else {
                    s.push_str(&format!("/{}/", tok))
                }
            }
            8 => s.push_str(&format!("/{}/", tok)),
            9 => s.push_str(&format!("_{}_", tok)),
            10 => s.push_str(&format!("/{}/*/{}", tok, r.ps(&["a", "bar"]))),
            _ => s.push_str(&format!("/{}.{}", tok, r.ps(&["js", "gif", "a"]))),
        }
        let mut opts: Vec<String> = vec![];
        let o = if big_group { "" } else if long_domains { r.ps(&["", "", "script"]) } else { r.ps(&pool) };
        if !o.is_empty() {
            opts.push(o.to_string());
        }
        match if long_domains || big_group { 15 } else { r.below(16) } {
            0 if p.important && (!exception || r.chance(1, 3)) => opts.push("important".into()),
            1 if p.tags => opts.push(format!("tag={}", r.ps(TAGS))),
            2 if p.domains => opts.push(format!("domain={}", r.ps(HOSTS))),
            3 if p.redirect => opts.push(format!("redirect={}", r.ps(&["noop.js", "1x1.gif"]))),
            4 if p.csp => {
                opts.retain(|o| o.contains("party"));
                opts.push(format!("csp={}", r.ps(CSP_DIRECTIVES)));
            }
            5 if p.full_regex && shape == 7 => opts.push("match-case".into()),
            _ => {}
        }
        if long_domains && !opts.iter().any(|o| o.starts_with("domain=") || o.starts_with("csp=")) {
            let n = 10 + r.below(9);
            let negs = r.chance(1, 4);
            let mut ds: Vec<String> = vec![];
            while ds.len() < n {
                let d = format!("{}site{:02}.com", if negs && r.chance(1, 8) { "~" } else { "" }, r.below(30));
                if !ds.iter().any(|x| x.trim_start_matches('~') == d.trim_start_matches('~')) {
                    ds.push(d);
                }
            }
            opts.push(format!("domain={}", ds.join("|")));
        }
        if rp_cluster && !exception && (shape != 7 || !p.full_regex) {
            opts.retain(|o| !o.starts_with("csp=") && !o.starts_with("redirect=") && !o.starts_with("tag=") && o != "important");
            opts.push(format!("removeparam={}", r.ps(&["ad", "foo", "x1", "utm_source", "fbclid", "y"])));
        }
        // a right-anchored rule often comes with a sibling whose text extends it (same options):
        // `P|` does not cover `PX|`
        let sibling = if matches!(shape, 4 | 12 | 15) && r.chance(1, 2) {
            let ext = r.ps(&["b", "?1", ".gif", "2"]);
            Some(format!("{}{}|", s.trim_end_matches('|'), ext))
        } else {
            None
        };
        let tail = if opts.is_empty() { String::new() } else { format!("${}", opts.join(",")) };
        s.push_str(&tail);
        out.push(s);
        if let Some(mut sib) = sibling {
            sib.push_str(&tail);
            out.push(sib);
        }
    }
    out
}

/// Token-less rules (no pattern, or only one-character runs) restricted by `domain=` lists drawn
/// from a small pool: they are indexed under their domains, single-domain and multi-domain rules
/// share buckets, and a multi-domain rule is one shared object stored in several buckets.
pub fn gen_domain_cluster(r: &mut Rng, p: &Profile) -> Vec<String> {
    let pool = ["a.com", "b.co.uk", "example.org", "track.io"];
    let n = 3 + r.below(6);
    let mut out = vec![];
    for _ in 0..n {
        let mut s = String::new();
        if p.exceptions && r.chance(1, 6) {
            s.push_str("@@");
        }
        s.push_str(r.ps(&["", "", "*", "a/b", "-x-"]));
        let mut opts: Vec<String> = vec![];
        let t = r.ps(&["script", "image", "xmlhttprequest", "script,image", "", "stylesheet", "~image"]);
        if !t.is_empty() {
            opts.push(t.to_string());
        }
        let k = 1 + r.below(3);
        let mut doms: Vec<&str> = vec![];
        for _ in 0..k {
            let d = r.ps(&pool);
            if !doms.contains(&d) {
                doms.push(d);
            }
        }
        opts.push(format!("domain={}", doms.join("|")));
        if r.chance(1, 8) {
            opts.push(r.ps(&["third-party", "~third-party"]).into());
        }
        if p.important && r.chance(1, 10) {
            opts.push("important".into());
        }
        if p.tags && r.chance(1, 10) {
            opts.push(format!("tag={}", r.ps(TAGS)));
        }
        s.push('$');
        s.push_str(&opts.join(","));
        out.push(s);
    }
    out
}

/// A list made of a few clusters plus some unrelated rules, shuffled.
pub fn gen_clustered_list(r: &mut Rng, p: &Profile) -> Vec<String> {
    let mut rules = vec![];
    let k = 1 + r.below(3);
    for _ in 0..k {
        rules.extend(gen_cluster(r, p));
    }
    if p.domains && r.chance(1, 3) {
        rules.extend(gen_domain_cluster(r, p));
    }
    let extra = r.below(6);
    for _ in 0..extra {
        rules.push(gen_rule(r, p));
    }
    for _ in 0..r.below(3) {
        let base = r.pick(&rules).clone();
        if let Some(t) = near_twin(r, &base, p) {
            rules.push(t);
        }
    }
    r.shuffle(&mut rules);
    rules
}
