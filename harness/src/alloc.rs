//! Counting global allocator: live bytes, peak while armed, largest single request while armed,
//! and refusal of oversize requests while armed (the allocation "fails", which aborts the process
//! with the usual "memory allocation of N bytes failed" message; the driver replays the journaled
//! case and reports it). Wraps the system allocator, so address reuse behaves as on glibc malloc.

use std::alloc::{GlobalAlloc, Layout, System};
use std::sync::atomic::{AtomicBool, AtomicUsize, Ordering};

pub struct Counting;

static LIVE: AtomicUsize = AtomicUsize::new(0);
static PEAK: AtomicUsize = AtomicUsize::new(0);
static LARGEST: AtomicUsize = AtomicUsize::new(0);
static ARMED: AtomicBool = AtomicBool::new(false);
static REFUSE_ABOVE: AtomicUsize = AtomicUsize::new(usize::MAX);

#[inline]
fn on_alloc(size: usize) {
    let live = LIVE.fetch_add(size, Ordering::Relaxed) + size;
    if ARMED.load(Ordering::Relaxed) {
        PEAK.fetch_max(live, Ordering::Relaxed);
        LARGEST.fetch_max(size, Ordering::Relaxed);
    }
}

unsafe impl GlobalAlloc for Counting {
    unsafe fn alloc(&self, layout: Layout) -> *mut u8 {
        if ARMED.load(Ordering::Relaxed) && layout.size() > REFUSE_ABOVE.load(Ordering::Relaxed) {
            return std::ptr::null_mut();
        }
        let p = System.alloc(layout);
        if !p.is_null() {
            on_alloc(layout.size());
        }
        p
    }
    unsafe fn alloc_zeroed(&self, layout: Layout) -> *mut u8 {
        if ARMED.load(Ordering::Relaxed) && layout.size() > REFUSE_ABOVE.load(Ordering::Relaxed) {
            return std::ptr::null_mut();
        }
        let p = System.alloc_zeroed(layout);
        if !p.is_null() {
            on_alloc(layout.size());
        }
        p
    }
    unsafe fn dealloc(&self, ptr: *mut u8, layout: Layout) {
        LIVE.fetch_sub(layout.size(), Ordering::Relaxed);
        System.dealloc(ptr, layout)
    }
    unsafe fn realloc(&self, ptr: *mut u8, layout: Layout, new_size: usize) -> *mut u8 {
        if ARMED.load(Ordering::Relaxed) && new_size > REFUSE_ABOVE.load(Ordering::Relaxed) {
            return std::ptr::null_mut();
        }
        let p = System.realloc(ptr, layout, new_size);
        if !p.is_null() {
            LIVE.fetch_sub(layout.size(), Ordering::Relaxed);
            on_alloc(new_size);
        }
        p
    }
}

/// Arm the monitor: returns the live-byte baseline. Requests above `refuse_above` bytes fail.
pub fn arm(refuse_above: usize) -> usize {
    let live = LIVE.load(Ordering::Relaxed);
    PEAK.store(live, Ordering::Relaxed);
    LARGEST.store(0, Ordering::Relaxed);
    REFUSE_ABOVE.store(refuse_above, Ordering::Relaxed);
    ARMED.store(true, Ordering::SeqCst);
    live
}

/// Disarm: returns (peak live bytes while armed, largest single request while armed).
pub fn disarm() -> (usize, usize) {
    ARMED.store(false, Ordering::SeqCst);
    REFUSE_ABOVE.store(usize::MAX, Ordering::Relaxed);
    (PEAK.load(Ordering::Relaxed), LARGEST.load(Ordering::Relaxed))
}
